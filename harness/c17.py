"""C17 — a uniform time axis stays self-consistent through any sequence of operations.

Correspondence: one protocol line = one whole operation history from an initial axis; the same
history is applied to a real `UniformTime`; after every step the observation
(outcome | abstract (t0,Δ,n,unit) | current axis | originals of earlier copies), each axis as
unit:t0:Δ:duration:rate-bits:samples:index_at(axis[i]) for all i, is compared with the Lean model
`Nitime.C17` (exact, including the binary64 rate).
Oracle (independent of the Lean model): a Python abstract machine on (t0, Δ, n, unit) in exact
integers; the implementation's samples, attributes, lookups, rejections and the originals of
copies are judged against it step by step; the first failing step of a history is reported.
"""
import itertools, operator, re
import numpy as np
from common import Case, Failure, f2x, err_kind

PID = 'C17'
LEAN_TARGETS = ['Nitime.Props.C17']
RULE = ('initial axes (unit, t0 of both signs, Δ, n in 1..8) drawn from VERIF_SEED; ALL sequences of op kinds '
        '{+=k, -=k, +=ramp, -=ramp, *=k, /=k, slice, copy, convert, non-uniform/wrong-length +=/-=, setitem} to depth 3 (quick) / 4 (thorough), '
        'operands concretised against the current length; distinct = distinct protocol line; non-trivial = at least one op')
ASSUMPTIONS = ['|t| < 2^62 ps throughout (operands are chosen so; overflow is not modelled)',
               'scalar operands are integers in the axis unit or time objects (a fractional bare scalar is refused by numpy\'s casting rule, not modelled)',
               'the parent of a slice (numpy view sharing the sample buffer) is not observed after operations on the slice']
TRUSTED_EXTRA = ['numpy: int64 in-place ufuncs, broadcasting errors, np.diff, slice.indices — modelled by their documented semantics (Model/C17.lean: shiftOp, rampStep, sliceIndices)',
                 'python float arithmetic = IEEE binary64 (Model/F64.lean, validated bit-for-bit by the C01 check); the rate is compared bit-exactly here']

UNITS = ['ps', 'ns', 'us', 'ms', 's', 'm']
FACTOR = {'ps': 1, 'ns': 10**3, 'us': 10**6, 'ms': 10**9, 's': 10**12, 'm': 60 * 10**12,
          'h': 3600 * 10**12, 'D': 86400 * 10**12, 'W': 604800 * 10**12}
LIM = 2**61
KINDS = ['as', 'ss', 'ar', 'sr', 'mu', 'dv', 'sl', 'cp', 'cv', 'nu', 'st']
KIND_NAME = {'as': 'iadd-scalar', 'ss': 'isub-scalar', 'ar': 'iadd-ramp', 'sr': 'isub-ramp', 'mu': 'imul', 'dv': 'idiv',
             'sl': 'slice', 'cp': 'copy', 'cv': 'convert', 'nu': 'nonuniform', 'st': 'setitem', 'init': 'init'}


def ts():
    import nitime.timeseries as t
    return t


# ------------------------------------------------------------------ the abstract machine (oracle side)
def slice_of(op):
    a, b, c = op[1], op[2], op[3]
    return slice(a, b, c)


def ramp_vals(op, unit):
    """operand values in ps"""
    if op[1] in ('t', 'u', 'ut', 'self', 'selfview'):
        return list(op[2])
    return [v * FACTOR[unit] for v in op[2]]


def abs_step(a, op):
    """(t0, dt, n, unit), op -> (new abstract state, accepted?)   [None = either outcome is acceptable]"""
    t0, dt, n, unit = a
    k = op[0]
    if k in ('as', 'ss'):
        v = op[2] if op[1] == 't' else op[2] * FACTOR[unit]
        return (t0 + v if k == 'as' else t0 - v, dt, n, unit), True
    if k in ('ar', 'sr', 'nu'):
        sub = (k == 'sr') or (k == 'nu' and op[3] == 'sub')
        vals = ramp_vals(op, unit)
        dv = [y - x for x, y in zip(vals, vals[1:])]
        if len(vals) == 0:
            return a, False          # nothing to add: refused
        if len(vals) == 1:           # numpy broadcasts a single element: a shift
            return ((t0 - vals[0], dt, n, unit) if sub else (t0 + vals[0], dt, n, unit)), True
        acc = all(d == dv[0] for d in dv) and len(vals) == n
        if acc is False:
            return a, False
        d = dv[0] if dv else 0
        v0 = vals[0] if vals else 0
        new = (t0 - v0, dt - d, n, unit) if sub else (t0 + v0, dt + d, n, unit)
        if acc and d != 0 and new[1] == 0:
            return a, False      # the operand would put all samples on one instant: to be refused
        return (new if acc else a), acc
    if k == 'mu':
        if op[1] == 0:
            return a, False
        return (t0 * op[1], dt * op[1], n, unit), True
    if k == 'dv':
        q = op[1]
        if q == 0 or t0 % q or dt % q:
            return a, False
        return (t0 // q, dt // q, n, unit), True
    if k == 'sl':
        if op[3] == 0:
            return a, False
        r = range(*slice_of(op).indices(n))
        return (t0 + r.start * dt, dt * op[3], len(r), unit), True
    if k == 'cp':
        return a, True
    if k == 'cv':
        return (t0, dt, n, op[1]), True
    if k == 'st':
        return a, False
    raise ValueError(op)


# ------------------------------------------------------------------ protocol tokens
def tok_op(op):
    k = op[0]
    if k in ('as', 'ss'):
        return '%s:%s:%d' % (k, 'i' if op[1] != 't' else 't', op[2])
    if k in ('ar', 'sr', 'nu'):
        kk = k if k != 'nu' else ('sr' if op[3] == 'sub' else 'ar')
        if op[1] in ('self', 'selfview'):
            return kk + ':self'
        if op[1] == 'ut':   # an operand of TYPE UniformTime: the interval it claims, then its samples (ps)
            return '%s:u:%d:%s' % (kk, op[4]['claimed'], ','.join(str(v) for v in op[2]) if op[2] else '-')
        return '%s:%s:%s' % (kk, 't' if op[1] in ('t', 'u') else 'i', ','.join(str(v) for v in op[2]) if op[2] else '-')
    if k in ('mu', 'dv'):
        return '%s:%d' % (k, op[1])
    if k == 'sl':
        return 'sl:%s:%s:%d' % tuple(['n' if v is None else str(v) for v in op[1:3]] + [op[3]])
    if k == 'cp':
        return 'cp'
    if k == 'cv':
        return 'cv:' + op[1]
    if k == 'st':
        return 'st'
    raise ValueError(op)


# ------------------------------------------------------------------ implementation adapter
def mk_time(ps, unit, scalar):
    T = ts().TimeArray
    t = T(np.int64(ps) if scalar else np.array(ps, dtype=np.int64), time_unit='ps')
    t.convert_unit(unit)
    return t


INT_FORMS = {'a64': np.int64, 'a32': np.int32, 'a16': np.int16, 'u8': np.uint8, 'u64': np.uint64, 'be8': '>i8', 'be2': '>i2'}
SCALAR_FORMS = {'n': np.int64, 'n32': np.int32, 'n16': np.int16, 'nu8': np.uint8}


def fits_form(form, vals):
    """can these whole numbers be held exactly by the dtype of this operand form?"""
    lo, hi = {'a32': (-2**31, 2**31 - 1), 'a16': (-2**15, 2**15 - 1), 'be2': (-2**15, 2**15 - 1), 'u8': (0, 255), 'u64': (0, 2**62),
              'n32': (-2**31, 2**31 - 1), 'n16': (-2**15, 2**15 - 1), 'nu8': (0, 255), 'a0_16': (-2**15, 2**15 - 1)}.get(form, (-2**62, 2**62))
    return all(lo <= v <= hi for v in vals)


def mk_scalar(form, v):
    """a whole number as python int / numpy scalar of a narrow type / 0-d array (L1 operand kinds)"""
    if form in SCALAR_FORMS:
        return SCALAR_FORMS[form](v)
    if form == 'a0':
        return np.array(v, dtype=np.int64)
    if form == 'a0_16':
        return np.array(v, dtype=np.int16)
    if form == 'a0be':
        return np.array(v, dtype='>i8')
    if form == 'a1':
        return np.array([v], dtype=np.int64)
    return int(v)


class OperandMismatch(Exception):
    pass


def donor_axis(rec):
    t0, dt, m, u = rec['donor']
    f = FACTOR[u]
    return ts().UniformTime(t0=t0 // f, sampling_interval=dt // f, length=m, time_unit=u)


def donor_samples(rec):
    t0, dt, m, u = rec['donor']
    return [t0 + i * dt for i in range(m)]


def route_expected(rec):
    """what the samples of `route(donor)` are, in ps, computed from the recipe alone (python ints)"""
    d = donor_samples(rec)
    r = rec['route']
    if r in ('fancy', 'take', 'write-fancy'):
        return [d[i] for i in rec['idx']]
    if r in ('bool', 'compress'):
        return [x for x, m in zip(d, rec['mask']) if m]
    if r in ('flip', 'tuple-slice', 'slice-rev'):
        return d[::-1]
    if r == 'slice':
        return d[slice(*rec['sl'])]
    if r in ('cumsum', 'm-cumsum'):
        out, acc = [], 0
        for x in d:
            acc += x
            out.append(acc)
        return out
    if r in ('repeat', 'm-repeat'):
        return [x for x in d for _ in range(rec['k'])][:rec['n']]
    if r == 'tile':
        return (d * rec['k'])[:rec['n']]
    if r == 'npadd':
        return [x + rec['k'] for x in d]
    if r in ('npmul', 'scalar-left-mul'):
        return [x * rec['k'] for x in d]
    if r == 'scalar-left-sub':
        return [rec['k'] - x for x in d]
    if r == 'npneg':
        return [-x for x in d]
    if r == 'floordiv':
        return [x // rec['k'] for x in d]
    if r == 'mod':
        return [x % rec['k'] for x in d]
    if r in ('abs', 'npabs'):
        return [abs(x) for x in d]
    if r == 'clip':
        return [min(max(x, rec['lo']), rec['hi']) for x in d]
    if r == 'maximum':
        return [max(x, rec['lo']) for x in d]
    if r == 'delete':
        return [x for i, x in enumerate(d) if i != rec['k']]
    if r == 'diff':
        return [b - a for a, b in zip(d, d[1:])]
    if r == 'write':
        return list(rec['vals'])
    if r == 'ctor':
        return d
    raise ValueError(r)


def route_apply(rec, u):
    """the object the tree hands out for `route(donor)`; whether it is typed UniformTime is the tree's business"""
    r = rec['route']
    if r == 'fancy':
        return u[list(rec['idx'])]
    if r == 'take':
        return u.take(list(rec['idx']))
    if r == 'bool':
        return u[np.array(rec['mask'], dtype=bool)]
    if r == 'compress':
        return u.compress(np.array(rec['mask'], dtype=bool))
    if r == 'flip':
        return np.flip(u)
    if r == 'tuple-slice':
        return u[(slice(None, None, -1),)]
    if r == 'slice-rev':
        return u[::-1]
    if r == 'slice':
        return u[slice(*rec['sl'])]
    if r == 'cumsum':
        return np.cumsum(u)
    if r == 'm-cumsum':
        return u.cumsum()
    if r == 'repeat':
        return np.repeat(u, rec['k'])[:rec['n']]
    if r == 'm-repeat':
        return u.repeat(rec['k'])[:rec['n']]
    if r == 'tile':
        return np.tile(u, rec['k'])[:rec['n']]
    if r == 'npadd':
        return np.add(u, rec['k'])
    if r == 'npmul':
        return np.multiply(u, rec['k'])
    if r == 'scalar-left-mul':
        return np.int64(rec['k']) * u
    if r == 'scalar-left-sub':
        return np.int64(rec['k']) - u
    if r == 'npneg':
        return np.negative(u)
    if r == 'floordiv':
        return u // rec['k']
    if r == 'mod':
        return u % rec['k']
    if r == 'abs':
        return abs(u)
    if r == 'npabs':
        return np.abs(u)
    if r == 'clip':
        return u.clip(rec['lo'], rec['hi'])
    if r == 'maximum':
        return np.maximum(u, rec['lo'])
    if r == 'delete':
        return np.delete(u, rec['k'])
    if r == 'diff':
        return np.diff(u)
    if r in ('write', 'write-fancy'):
        # the type and the attributes of the donor, other samples: written through an ndarray view of the buffer
        # (always possible, whatever __getitem__ / __array_wrap__ do)
        w = u[:len(rec['vals'])] if r == 'write' else u[:len(rec['idx'])]
        np.asarray(w)[:] = np.array(route_expected(rec), dtype=np.int64)
        return w
    if r == 'ctor':
        return u
    raise ValueError(r)


def mk_typed(rec):
    """the operand of a `ut` op, checked to hold the samples the recipe says"""
    import warnings
    with warnings.catch_warnings():
        warnings.simplefilter('ignore')
        obj = route_apply(rec, donor_axis(rec))
    got = [int(v) for v in np.asarray(obj).reshape(-1)]
    if got != route_expected(rec) or np.asarray(obj).dtype.kind not in 'iu':
        raise OperandMismatch('%s: operand holds %s, recipe says %s' % (rec['route'], got[:8], route_expected(rec)[:8]))
    return obj


def mk_operand(op, unit, ax=None):
    k = op[0]
    if k in ('as', 'ss'):
        if op[1] == 't':
            return mk_time(op[2], op[3], True)
        return mk_scalar(op[1], op[2])
    form, vals = op[1], op[2]
    if form == 'ut':
        return mk_typed(op[4])
    if form in INT_FORMS and form != 'a32':
        return np.array(vals, dtype=INT_FORMS[form])
    if form == 'ro':
        a = np.array(vals, dtype=np.int64)
        a.setflags(write=False)
        return a
    if form == 'str':      # a strided view: every second element of a buffer holding other numbers in between
        base = np.full(2 * len(vals), 977, dtype=np.int64)
        base[::2] = vals
        return base[::2]
    if form == 'rstr':     # a view with a negative stride
        return np.array(list(vals)[::-1], dtype=np.int64)[::-1]
    if form == 'tup':
        return tuple(vals)
    if form == 'tl':       # a list of 0-d time objects (ps; generated for ps axes only, where a bare number is a ps too)
        return [ts().TimeArray(np.int64(v), time_unit='ps') for v in vals]
    if form == 'self':
        return ax
    if form == 'selfview':
        return ax[:]
    if form == 'u':       # another uniform axis (ps values uniform, positive step, whole units of op[4])
        u2 = op[4]
        f = FACTOR[u2]
        return ts().UniformTime(t0=vals[0] // f, sampling_interval=(vals[1] - vals[0]) // f, length=len(vals), time_unit=u2)
    if form == 't':
        return mk_time(vals, op[4] if len(op) > 4 else unit, False)
    if form == 'l':
        return list(vals)
    return np.array(vals, dtype=np.int32 if form == 'a32' else np.int64)


def apply_op(ax, op):
    """returns (axis after, outcome, original kept or None)"""
    k = op[0]
    try:
        if k in ('as', 'ar') or (k == 'nu' and op[3] == 'add'):
            ax = operator.iadd(ax, mk_operand(op, ax.time_unit, ax))
        elif k in ('ss', 'sr', 'nu'):
            ax = operator.isub(ax, mk_operand(op, ax.time_unit, ax))
        elif k == 'mu':
            ax = operator.imul(ax, mk_scalar(op[2] if len(op) > 2 else 'i', op[1]))
        elif k == 'dv':
            ax = operator.itruediv(ax, mk_scalar(op[2] if len(op) > 2 else 'i', op[1]))
        elif k == 'sl':
            return ax[slice_of(op)], 'ok', ax      # the parent stays observed: the slice must not write through to it
        elif k == 'cp':
            return ax.copy(), 'ok', ax
        elif k == 'cv':
            return ts().UniformTime(ax, time_unit=op[1]), 'ok', ax
        elif k == 'st':
            if op[1] == 'i':
                ax[op[2]] = op[3]
            else:
                ax[op[2]:] = op[3]
        return ax, 'ok', None
    except OperandMismatch:
        return ax, 'OperandMismatch', None
    except Exception as e:  # noqa
        return ax, err_kind(e), None


def obs_axis(ax):
    try:
        s = [int(v) for v in np.asarray(ax).reshape(-1)]
        looks = []
        for i in range(len(s)):
            try:
                looks.append(str(int(ax.index_at(ax[i]))))
            except Exception:  # noqa
                looks.append('e')
        return '%s:%d:%d:%d:%s:%s:%s' % (ax.time_unit, int(ax.t0), int(ax.sampling_interval), int(ax.duration),
                                         f2x(float(ax.sampling_rate))[1:], ','.join(map(str, s)) if s else '-',
                                         ','.join(looks) if looks else '-')
    except Exception as e:  # noqa
        return 'unobservable:' + err_kind(e)


def mk_axis(init):
    unit, t0, dt, n = init
    f = FACTOR[unit]
    return ts().UniformTime(t0=t0 // f, sampling_interval=dt // f, length=n, time_unit=unit)


def run_impl(init, ops):
    """-> list of (outcome, [obs cur, obs kept...]) after construction and after every op"""
    import warnings
    with warnings.catch_warnings():
        warnings.simplefilter('ignore')
        ax = mk_axis(init)
        kept = []
        out = [('ok', [obs_axis(ax)])]
        for op in ops:
            ax, oc, orig = apply_op(ax, op)
            if orig is not None:
                kept.insert(0, orig)
            out.append((oc, [obs_axis(ax)] + [obs_axis(k) for k in kept]))
        return out


def abs_trace(init, ops):
    unit, t0, dt, n = init
    a = (t0, dt, n, unit)
    out = [(a, True)]
    for op in ops:
        a, acc = abs_step(a, op)
        out.append((a, acc))
    return out


def impl_string(init, ops):
    steps = run_impl(init, ops)
    ab = abs_trace(init, ops)
    parts = []
    for (oc, axes), (a, _) in zip(steps, ab):
        parts.append('%s|%d,%d,%d,%s|%s' % (oc, a[0], a[1], a[2], a[3], '|'.join(axes)))
    return 'ok ' + ';'.join(parts), steps, ab


def line_of(init, ops):
    unit, t0, dt, n = init
    return 'C17 both %s %d %d %d %s' % (unit, t0, dt, n, ';'.join(tok_op(o) for o in ops) if ops else '-')


# ------------------------------------------------------------------ generators
def gen_init(rng, n=None, big=False):
    if big:   # magnitudes beyond 2^53 ps: t0 and/or Δ not representable in binary64
        t0 = rng.choice([2**53 + 1, -(2**53) - 1, 2**55 + 3, 5])
        dt = rng.choice([3, 2**53 + 1, 2**54 + 2, 7]) if abs(t0) > 100 else 2**53 + 1
        return ('ps', t0, dt, n if n is not None else rng.randint(1, 5))
    unit = rng.choice(UNITS)
    f = FACTOR[unit]
    t0 = rng.choice([0, 0, 1, 5, -3, -1, 10, -12, 7]) * f
    dt = rng.choice([1, 1, 2, 3, 4, 6, 10]) * f
    n = n if n is not None else rng.randint(1, 8)
    return (unit, t0, dt, n)


NEAR_SLOPES = [10**6, 10**9 + 7, 10**12 // 7, 2**53 + 1, -(10**6) - 3, 123456789012]


def near_uniform(rng, n, slope=None, where=None, eps=None):
    """n >= 3 whole picoseconds: an exact ramp with ONE element moved by eps (±1, ±3 ps) at the start / in the
    middle / at the end, or a ramp computed in floating point (i/7 s) and rounded — never exactly uniform"""
    if slope is None:
        slope = rng.choice(NEAR_SLOPES)
    if rng.random() < 0.15 and where is None:
        vals = [int(round(i * 1e12 / 7)) for i in range(n)]
        if len({b - a for a, b in zip(vals, vals[1:])}) > 1:
            return vals
    a0 = rng.choice([5, 0, -7, 10**9])
    vals = [a0 + i * slope for i in range(n)]
    j = where if where is not None else rng.choice([0, n // 2, n - 1, rng.randrange(n)])
    vals[j] += eps if eps is not None else rng.choice([1, -1, 1, -1, 3])
    return vals


TYPED_NONUNIFORM = ['fancy', 'bool', 'take', 'compress', 'cumsum', 'm-cumsum', 'repeat', 'm-repeat', 'write', 'write-fancy', 'abs',
                    'mod', 'tile']
TYPED_UNIFORM = ['ctor', 'slice', 'slice-rev', 'flip', 'tuple-slice', 'npadd', 'npmul', 'npneg', 'scalar-left-sub']


def typed_recipe(rng, n, unit, uniform, near=None):
    """a recipe for an operand of n samples that is (on today's tree, or by a write through an ndarray view on
    any tree) of TYPE UniformTime; uniform=False: its samples are NOT uniform although its attributes say so"""
    f = FACTOR[unit]
    t0, dt = rng.choice([0, 1, -4, 3]) * f, rng.choice([1, 2, 3]) * f
    if near is not None:     # almost uniform samples under an honest-looking type
        return {'route': 'write', 'donor': [near[0], max(near[1] - near[0], 1), n, 'ps'], 'vals': list(near),
                'claimed': max(near[1] - near[0], 1)}
    for _ in range(40):
        r = rng.choice(TYPED_UNIFORM if uniform else TYPED_NONUNIFORM)
        rec = {'route': r, 'donor': [t0, dt, n, unit], 'claimed': dt}
        if r in ('fancy', 'take', 'write-fancy'):
            m = n + rng.randint(1, 3)
            rec['donor'][2] = m
            idx = sorted(rng.sample(range(m), n)) if rng.random() < 0.7 else [rng.randrange(m) for _ in range(n)]
            rec['idx'] = idx
        elif r in ('bool', 'compress'):
            m = n + rng.randint(1, 3)
            keep = set(rng.sample(range(m), n))
            rec['donor'][2] = m
            rec['mask'] = [1 if i in keep else 0 for i in range(m)]
        elif r in ('repeat', 'm-repeat', 'tile'):
            rec['k'], rec['n'] = 2, n
        elif r == 'slice':
            rec['donor'][2] = 2 * n + 1
            rec['sl'] = [1, 2 * n + 1, 2]
        elif r in ('npadd', 'scalar-left-sub'):
            rec['k'] = rng.choice([5, -3, 1]) * (f if r == 'npadd' else 1)
        elif r == 'npmul':
            rec['k'] = rng.choice([2, -1, 3])
        elif r == 'mod':
            rec['k'] = 3 * f
        elif r == 'abs':
            rec['donor'][0] = -2 * dt if n >= 4 else -dt
        elif r == 'write':
            vals = [t0 + i * dt for i in range(n)]
            j = rng.randrange(1, n) if n > 1 else 0
            vals[j] += rng.choice([1, -1, f])
            rec['vals'] = vals
        vals = route_expected(rec)
        dv = {b - c for c, b in zip(vals, vals[1:])}
        if len(vals) == n and (len(dv) <= 1) == bool(uniform) and all(abs(v) < LIM // 64 for v in vals):
            return rec
    return None


def scale_form(rng, k):
    form = rng.choice(['i', 'i', 'i', 'n', 'n16', 'nu8', 'n32', 'a0', 'a0_16', 'a1', 'a0be'])
    return form if fits_form(form, [k]) else 'i'


def concretise(rng, kind, a):
    """an operation of this kind that is meaningful for the abstract state `a`"""
    t0, dt, n, unit = a
    f = FACTOR[unit]
    room = abs(t0) + (n + 2) * abs(dt) < LIM // 64
    if kind in ('as', 'ss') and rng.random() < 0.25 and room:
        # L1: numpy scalars of narrow types, 0-d arrays (bare whole numbers in the unit of the axis)
        v = rng.randint(-9, 9)
        form = rng.choice(['n16', 'n32', 'nu8', 'a0', 'a0_16', 'a0be'])
        return (kind, form if fits_form(form, [v]) else 'a0', v)
    if kind in ('ar', 'sr') and rng.random() < 0.3 and room and n >= 2:
        # L1 layouts / dtypes of a bare uniform ramp; L5 operands of TYPE UniformTime that ARE uniform
        sgn = 1 if kind == 'ar' else -1
        if rng.random() < 0.35:
            rec = typed_recipe(rng, n, unit, True)
            if rec is not None:
                vals = route_expected(rec)
                if dt + sgn * (vals[1] - vals[0]) != 0:
                    return (kind, 'ut', vals, None, rec)
        st = rng.choice([1, 2, 3, -1])
        if dt + sgn * st * f == 0:
            st += 1 if st > 0 else -1
            if dt + sgn * st * f == 0:
                st = 7
        a0 = rng.choice([0, 1, 4, -2])
        vals = [a0 + i * st for i in range(n)]
        form = rng.choice(['a16', 'u8', 'u64', 'be8', 'be2', 'ro', 'str', 'rstr', 'tup'] + (['tl'] if unit == 'ps' else []))
        return (kind, form if fits_form(form, vals) else 'ro', vals, None)
    if kind == 'nu' and rng.random() < 0.55 and room and n >= 3:
        which = rng.choice(['add', 'sub'])
        c = rng.random()
        if c < 0.45:
            # L4: ALMOST uniform (one element off by a picosecond, float-rounded ramps), as a time array, as bare
            # picoseconds, as an object of type UniformTime
            vals = near_uniform(rng, n)
            form = rng.choice(['t', 't', 'ut'] + (['a64', 'ro', 'be8'] if unit == 'ps' else []))
            if form == 'ut':
                return ('nu', 'ut', vals, which, typed_recipe(rng, n, unit, False, near=vals), 'near')
            if form == 't':
                return ('nu', 't', vals, which, 'ps', 'near')
            return ('nu', form, vals, which, None, 'near')
        if c < 0.85:
            # L5: the operand is of TYPE UniformTime (indexing, numpy functions, a write through a view) but its
            # samples are not uniform
            rec = typed_recipe(rng, n, unit, False)
            if rec is not None:
                return ('nu', 'ut', route_expected(rec), which, rec)
        # L1: a grossly non-uniform bare operand in another dtype / layout
        vals = list(range(n))
        vals[rng.randrange(1, n)] += rng.choice([1, 2])
        if len({b - c2 for c2, b in zip(vals, vals[1:])}) > 1:
            form = rng.choice(['a16', 'u8', 'be8', 'ro', 'str', 'tup'])
            return ('nu', form, vals, which)
    if kind == 'mu' and room and rng.random() < 0.35:
        k = rng.choice([2, 3, 1, 5, -1, 0, -2, 1, -1])
        return ('mu', k, scale_form(rng, k))
    if kind == 'dv' and rng.random() < 0.4:
        # L4: divisors that leave remainder 1 (or -1) on t0 or on the interval, ±1, and exact ones, in every factor form
        cand = [q for q in (abs(dt) - 1, abs(dt) + 1, abs(t0) - 1, abs(t0) + 1, -(abs(dt) - 1), 1, -1, 2, -2, abs(dt), -abs(dt))
                if q != 0 and abs(q) < 2**60]
        q = rng.choice(cand)
        return ('dv', q, scale_form(rng, q))
    if kind in ('as', 'ss'):
        form = rng.choice(['i', 'i', 'n', 't', 'ax'])
        if form == 'ax':   # derived from the axis itself: exactly ±Δ, ±t0, ±(n-1)Δ
            v = rng.choice([dt, -dt, t0, -t0, (n - 1) * dt, -n * dt, 1, -1])
            return (kind, 't', v if abs(v) < LIM // 64 else 0, 'ps')
        if form == 't':
            u2 = rng.choice(UNITS)
            return (kind, 't', rng.randint(-9, 9) * FACTOR[u2] if room else 0, u2)
        return (kind, form, rng.randint(-9, 9) if room else 0)
    if kind in ('ar', 'sr'):
        sgn = 1 if kind == 'ar' else -1
        form = rng.choice(['u', 'l', 'a64', 'a32', 't', 'u', 'ax', 'self', 'one'])
        if form == 'self' and room:
            # the axis itself / a view of all of it as the operand (t += t, t -= t[:])
            return (kind, rng.choice(['self', 'selfview']), [t0 + i * dt for i in range(n)], None, 'ps')
        if form == 'one' and room:
            # a 1-d operand with a single element, whatever the length of the axis
            f1 = rng.choice(['l', 'a64', 'a32', 't'])
            v = rng.randint(-9, 9)
            return (kind, 't', [v * f], None, unit) if f1 == 't' else (kind, f1, [v], None)
        if form in ('self', 'one'):
            form = 'a64'
        if form == 'ax' and n >= 1 and room:
            # the axis itself, its negative, or a ramp whose step cancels the interval (Δ' = 0)
            w = rng.choice(['self', 'neg', 'cancel', 'cancel'])
            if w == 'self':
                vals = [t0 + i * dt for i in range(n)]
            elif w == 'neg':
                vals = [-(t0 + i * dt) for i in range(n)]
            else:
                vals = [5 - sgn * i * dt for i in range(n)]
            return (kind, 't', vals, None, 'ps')
        if form == 'ax':
            form = 'a64'
        if n == 0 and form in ('u', 't'):
            form = 'a64'    # an empty time object cannot even be constructed
        if form in ('u', 't'):
            u2 = rng.choice([unit, unit, rng.choice(UNITS)])
            f2 = FACTOR[u2]
            st = rng.choice([1, 1, 2, 3, 5]) if room else 1
            if form == 't' and rng.random() < 0.5:
                st = -st
            if dt + sgn * st * f2 == 0:
                st += 1
            a0 = rng.choice([0, 0, 1, 4, -2]) if room else 0
            vals = [(a0 + i * st) * f2 for i in range(n)]
            if form == 'u' and n < 2:
                form = 't'
            return (kind, form, vals, None, u2)
        st = rng.choice([1, 1, 2, -1, 3, -2]) if room else 1
        if dt + sgn * st * f == 0:
            st += 1 if st > 0 else -1
            if dt + sgn * st * f == 0:
                st = 7
        a0 = rng.choice([0, 0, 1, 4, -2]) if room else 0
        return (kind, form, [a0 + i * st for i in range(n)], None)
    if kind == 'mu':
        if not room:
            return ('mu', 1)
        return ('mu', rng.choice([2, 3, 2, 1, 5, -1, -1, 0, -2]))
    if kind == 'dv':
        c = rng.random()
        if c < 0.55:   # an exact divisor of both t0 and dt (besides 1 when possible)
            import math
            g = math.gcd(abs(t0), abs(dt)) or 1
            cand = [q for q in (2, 3, 4, 5, 6, 10, 1000, -2, -1, g, -g) if g % q == 0] or [1]
            return ('dv', rng.choice(cand))
        return ('dv', rng.choice([2, 3, 7, 0, 1, 11, -1, -3]))
    if kind == 'sl':
        c = rng.choice([1, 2, 2, 3, -1, -2, -3, 1, max(n, 1), -max(n, 1), n + 1, 0 if rng.random() < 0.3 else 2])
        pick = lambda: rng.choice([None, None, 0, 1, 2, 3, -1, -2, n, n + 2, -n - 1, n // 2])
        return ('sl', pick(), pick(), c)
    if kind == 'cp':
        return ('cp',)
    if kind == 'cv':
        return ('cv', rng.choice(UNITS))
    if kind == 'st':
        if rng.random() < 0.6:
            return ('st', 'i', rng.randrange(n) if n else 0, rng.randint(0, 50))
        return ('st', 's', rng.randrange(n) if n else 0, rng.randint(0, 50))
    if kind == 'nu':
        which = rng.choice(['add', 'sub'])
        form = rng.choice(['l', 'a64', 'a32', 't'])
        if n >= 3 and rng.random() < 0.7:
            vals = [i for i in range(n)]
            j = rng.randrange(1, n) if rng.random() < 0.7 else n - 1
            for i in range(j, n):
                vals[i] += rng.choice([1, 2, -1])
            dv = [y - x for x, y in zip(vals, vals[1:])]
            if all(d == dv[0] for d in dv):   # shifting a suffix of a ramp from index 1 keeps it uniform only if n == 2
                vals[-1] += 1
        else:   # uniform but of the wrong length (>= 2)
            m = rng.choice([n + 1, n + 2, max(2, n - 1)])
            if m == n:
                m = n + 1
            vals = list(range(m))
        if form == 't':
            return ('nu', 't', [v * f for v in vals], which, unit)
        return ('nu', form, vals, which)
    raise ValueError(kind)


def build_case(rng, init, kinds):
    """concretise the kinds one after the other against the abstract state"""
    a = (init[1], init[2], init[3], init[0])
    ops = []
    for k in kinds:
        op = concretise(rng, k, a)
        ops.append(op)
        a, _ = abs_step(a, op)
    return make_case(init, ops)


def make_case(init, ops):
    impl, steps, ab = impl_string(init, ops)
    clause = 'history/' + '.'.join(o[0] for o in ops) if len(ops) <= 2 else 'history/depth%d' % len(ops)
    return Case(line_of(init, ops), impl, clause, cmp=cmp_fixed, meta={'init': list(init), 'ops': [list(o) for o in ops]},
                nontrivial=bool(ops))


def cmp_fixed(impl, model):
    """the driver answers `<trace of the repaired model> ## <trace of the unrepaired model>`; the
    implementation has to follow the repaired one"""
    return norm_outcomes(impl) == norm_outcomes(model.split(' ## ')[0])


_OUTCOME = re.compile(r'(^ok |;)(?!ok\|)[A-Za-z:]+\|')


def norm_outcomes(s):
    """the property speaks of operations being *rejected*; which exception class does it is not
    compared (e.g. today's `/= 0` raises AttributeError where the repaired code raises ValueError)"""
    return _OUTCOME.sub(lambda m: m.group(1) + 'rejected|', s)


def operand_sweep(rng, tier):
    """depth-1/2 histories that put every operand family of `+=` / `-=` on axes of length 2..8 and on a long one:
    almost-uniform operands (one element off by ±1 ps at the start / middle / end, every slope of NEAR_SLOPES,
    float-rounded ramps), operands of TYPE UniformTime made by every route (uniform and not), every dtype / layout"""
    out = []
    reps = 1 if tier == 'quick' else 4
    for _ in range(reps):
        for n in (3, 4, 5, 8, 2, 64 if tier == 'quick' else 200):
            unit = rng.choice(UNITS)
            f = FACTOR[unit]
            init = (unit, rng.choice([0, 3, -4]) * f, rng.choice([1, 2, 5]) * f, n)
            a = (init[1], init[2], n, unit)
            follow = lambda: [concretise(rng, rng.choice(['as', 'sl', 'cp', 'mu']), a)] if rng.random() < 0.5 else []
            if n >= 3:
                for where in (0, n // 2, n - 1):
                    for eps in (1, -1):
                        slope = rng.choice(NEAR_SLOPES)
                        vals = near_uniform(rng, n, slope=slope, where=where, eps=eps)
                        which = rng.choice(['add', 'sub'])
                        form = rng.choice(['t', 'ut', 'a64'] if unit == 'ps' else ['t', 'ut'])
                        if form == 'ut':
                            op = ('nu', 'ut', vals, which, typed_recipe(rng, n, unit, False, near=vals), 'near')
                        elif form == 't':
                            op = ('nu', 't', vals, which, 'ps', 'near')
                        else:
                            op = ('nu', 'a64', vals, which, None, 'near')
                        out.append(make_case(init, [op] + follow()))
                vals = [int(round(i * 1e12 / 7)) for i in range(n)]
                if len({b - c for c, b in zip(vals, vals[1:])}) > 1:
                    out.append(make_case(init, [('nu', 't', vals, 'add', 'ps', 'near')]))
                for r in TYPED_NONUNIFORM:
                    for _k in range(8):
                        rec = typed_recipe(rng, n, unit, False)
                        if rec is not None and rec['route'] == r:
                            out.append(make_case(init, [('nu', 'ut', route_expected(rec), rng.choice(['add', 'sub']), rec)] + follow()))
                            break
            for r in TYPED_UNIFORM:
                for _k in range(8):
                    rec = typed_recipe(rng, n, unit, True)
                    if rec is not None and rec['route'] == r:
                        vals = route_expected(rec)
                        kind = rng.choice(['ar', 'sr'])
                        if n >= 2 and init[2] + (1 if kind == 'ar' else -1) * (vals[1] - vals[0]) == 0:
                            continue
                        out.append(make_case(init, [(kind, 'ut', vals, None, rec)] + follow()))
                        break
            for form in ('a16', 'u8', 'u64', 'be8', 'be2', 'ro', 'str', 'rstr', 'tup', 'tl'):
                if form == 'tl' and unit != 'ps':
                    continue
                vals = [1 + 2 * i for i in range(n)]
                if not fits_form(form, vals + [vals[-1] + 1]):
                    vals = [1 + (i % 2) * 0 + i for i in range(n)] if fits_form(form, [n + 1]) else vals
                    if not fits_form(form, vals + [vals[-1] + 1]):
                        continue
                out.append(make_case(init, [(rng.choice(['ar', 'sr']), form, vals, None)] + follow()))
                if n >= 3:
                    bad = list(vals)
                    bad[rng.randrange(1, n)] += 1
                    if len({b - c for c, b in zip(bad, bad[1:])}) > 1:
                        out.append(make_case(init, [('nu', form, bad, rng.choice(['add', 'sub']))]))
            for form in ('n16', 'n32', 'nu8', 'a0', 'a0_16', 'a0be'):
                out.append(make_case(init, [(rng.choice(['as', 'ss']), form, rng.randint(0, 9))] + follow()))
            for form in ('n', 'n16', 'nu8', 'n32', 'a0', 'a0_16', 'a1', 'a0be'):
                out.append(make_case(init, [('mu', rng.choice([2, 3, 1]), form)] + follow()))
                g = rng.choice([1, 2, 5])
                out.append(make_case((unit, init[1] * g, init[2] * g, n), [('dv', g, form)]))
    return out


def check_cases(rng, tier):
    """the uniformity check itself (`_convert_and_check_uniformity`, one call) against the model's `checkOperand`:
    what it hands back (values in ps, interval change) or that it refuses"""
    out = []
    for _ in range(80 if tier == 'quick' else 800):
        unit = rng.choice(UNITS)
        n = rng.choice([0, 1, 2, 2, 3, 4, 5, 8, 33])
        c = rng.random()
        if c < 0.3 and n >= 3:
            vals, form = near_uniform(rng, n), rng.choice(['t', 'ut'])
            rec = typed_recipe(rng, n, unit, False, near=vals) if form == 'ut' else None
        elif c < 0.55 and n >= 3:
            rec = typed_recipe(rng, n, unit, rng.random() < 0.4)
            if rec is None:
                continue
            vals, form = route_expected(rec), 'ut'
        elif c < 0.8:
            st, a0 = rng.choice([1, 2, -3, 0]), rng.randint(-3, 3)
            vals = [a0 + i * st for i in range(n)]
            if n >= 3 and rng.random() < 0.4:
                vals[rng.randrange(1, n)] += 1
            form, rec = rng.choice(['a64', 'a16', 'l', 'be8', 'str', 'ro']), None
            if not fits_form(form, vals):
                form = 'a64'
        else:
            st, a0 = rng.choice([1, 2, -3]) * FACTOR[rng.choice(UNITS)], rng.randint(-3, 3) * 10**6
            vals = [a0 + i * st for i in range(n)]
            form, rec = 't', None
        if form in ('t', 'ut') and n == 0:
            continue
        op = ('ar', form, vals, None, rec if form == 'ut' else 'ps')
        out.append(make_check_case(unit, op))
    return out


def run_check(unit, op):
    import warnings
    with warnings.catch_warnings():
        warnings.simplefilter('ignore')
        ax = ts().UniformTime(t0=0, sampling_interval=1, length=max(len(op[2]), 1), time_unit=unit)
        try:
            operand = mk_operand(op, unit, ax)
            val, d = ax._convert_and_check_uniformity(operand)
            return 'ok %d %s' % (int(d), ','.join(str(int(v)) for v in np.asarray(val).reshape(-1)) or '-')
        except OperandMismatch:
            return 'operand-mismatch'
        except Exception as e:  # noqa
            return 'err ' + err_kind(e)


def make_check_case(unit, op):
    tok = tok_op(op).split(':', 1)[1]
    return Case('C17 check %s %s' % (unit, tok), run_check(unit, op), 'check/' + ('typed' if op[1] == 'ut' else 'time' if op[1] == 't' else 'bare'),
                cmp=lambda impl, model: impl.split(' ')[0:1] == ['err'] and model.startswith('err ') or impl == model.split(' ## ')[0],
                meta={'check': {'unit': unit, 'op': list(op)}})


def judge_check(spec):
    unit, op = spec['unit'], tuple(spec['op'])
    got = run_check(unit, op)
    vals = ramp_vals(op, unit)
    dv = [b - a for a, b in zip(vals, vals[1:])]
    want = 'err' if not vals or (dv and any(x != dv[0] for x in dv)) else 'ok %d %s' % (dv[0] if dv else 0, ','.join(map(str, vals)))
    if got == want or (want == 'err' and got.startswith('err ')):
        return None
    fam = 'typed' if op[1] == 'ut' else 'time' if op[1] == 't' else 'bare'
    sym = ('operand-samples-wrong' if got == 'operand-mismatch' else 'accepts-nonuniform' if want == 'err' else
           'refuses-uniform' if got.startswith('err') else 'wrong-values-or-step')
    return ('check/%s/%s' % (fam, sym), '_convert_and_check_uniformity(%s operand %s, route %s) on a %s axis answers %s; its samples in ps are %s'
            % (fam, op[1], (op[4] or {}).get('route') if op[1] == 'ut' else '-', unit, got[:200], vals[:12]))


def cases(rng, tier, seed):
    out = []
    if tier == 'quick':
        plan = [(3, 5)]
    else:
        plan = [(4, 4), (3, 24)]
    # a fixed corpus first: the histories behind the recorded findings
    for init, ops in CORPUS:
        out.append(make_case(init, ops))
    for depth, naxes in plan:
        for i in range(naxes):
            init = gen_init(rng, n=[4, 1, 2, 8, 3][i] if i < 5 else None, big=(i == 4 or i % 6 == 5))
            for kinds in itertools.product(KINDS, repeat=depth):
                out.append(build_case(rng, init, kinds))
    out += operand_sweep(rng, tier)
    out += check_cases(rng, tier)
    return out


S = FACTOR['ms']
CORPUS = [
    (('ms', 1 * S, 2 * S, 4), [('as', 'i', 3)]),
    (('ms', 1 * S, 2 * S, 4), [('ss', 'i', 1)]),
    (('ms', 1 * S, 2 * S, 4), [('ar', 'u', [0, S, 2 * S, 3 * S], None, 'ms')]),
    (('ms', 1 * S, 2 * S, 4), [('sr', 'u', [0, S, 2 * S, 3 * S], None, 'ms')]),
    (('ms', 1 * S, 2 * S, 4), [('mu', 2)]),
    (('ms', 2 * S, 2 * S, 4), [('dv', 2)]),
    (('ms', 1 * S, 2 * S, 4), [('sl', 1, 4, 2)]),
    (('ms', 1 * S, 2 * S, 4), [('cp',), ('ar', 'l', [0, 1, 2, 3], None)]),
    (('ms', 1 * S, 2 * S, 4), [('cv', 's')]),
    (('ms', 1 * S, 2 * S, 4), [('nu', 'a64', [0, 1, 3, 4], 'add')]),
    (('ms', 1 * S, 2 * S, 4), [('nu', 'a64', [0, 1], 'add')]),
    (('ms', 1 * S, 2 * S, 4), [('st', 'i', 0, 42)]),
    (('ms', 1 * S, 2 * S, 4), [('mu', 0)]),
    (('s', 3000 * S, 2000 * S, 4), [('ar', 'self', [3000 * S, 5000 * S, 7000 * S, 9000 * S], None, 'ps')]),
    (('s', 3000 * S, 2000 * S, 4), [('ar', 'selfview', [3000 * S, 5000 * S, 7000 * S, 9000 * S], None, 'ps')]),
    (('s', 3000 * S, 2000 * S, 4), [('sr', 'self', [3000 * S, 5000 * S, 7000 * S, 9000 * S], None, 'ps')]),
    (('s', 3000 * S, 2000 * S, 1), [('ar', 'a64', [5], None)]),
    (('s', 3000 * S, 2000 * S, 4), [('sr', 'l', [1], None)]),
    (('s', 3000 * S, 2000 * S, 4), [('sl', None, None, -1)]),
    (('s', 0, 2000 * S, 5), [('sl', 1, 3, 1), ('as', 'i', 5)]),
    (('s', 3000 * S, 2000 * S, 4), [('mu', -1), ('as', 'i', 2)]),
]


# ------------------------------------------------------------------ oracle
def parse_axis(s):
    p = s.split(':')
    if len(p) != 7:
        return None
    import struct
    rate = struct.unpack('<d', struct.pack('<Q', int(p[4], 16)))[0]
    return {'unit': p[0], 't0': int(p[1]), 'dt': int(p[2]), 'dur': int(p[3]), 'rate': rate,
            'samples': [] if p[5] == '-' else [int(v) for v in p[5].split(',')],
            'looks': [] if p[6] == '-' else p[6].split(',')}


def judge_axis(o, a):
    """symptoms of one observed axis against the abstract state a = (t0, dt, n, unit), in priority order"""
    t0, dt, n, unit = a
    if o is None:
        return ['unobservable']
    sym = []
    want = [t0 + i * dt for i in range(n)]
    if o['samples'] != want:
        sym.append('samples')
    if o['t0'] != t0:
        sym.append('t0')
    if o['dt'] != dt:
        sym.append('interval')
    if o['dur'] != n * dt:
        sym.append('duration')
    if dt != 0 and not (abs(o['rate'] * dt - 1e12) <= 1e-9 * 1e12):
        sym.append('rate')
    if o['unit'] != unit:
        sym.append('unit')
    if dt != 0 and o['looks'] != [str(i) for i in range(n)]:
        sym.append('lookup')
    return sym


def judge(init, ops, steps=None):
    """first failing step of the history -> (key, what, step index) or None"""
    if steps is None:
        steps = run_impl(init, ops)
    ab = abs_trace(init, ops)
    kept_obs = []       # observation of each kept original at the time it was kept
    prev_axes = None
    for i, ((oc, axes), (a, acc)) in enumerate(zip(steps, ab)):
        op = ops[i - 1] if i else ('init',)
        name = KIND_NAME[op[0]]
        if op[0] in ('ar', 'sr', 'nu') and len(op[2]) != ab[i - 1][0][2] and len(op[2]) != 1:
            name += '-wrong-length'
        elif op[0] == 'nu' and len(op) > 5 and op[5] == 'near':
            name += '-near-uniform' + ('-typed' if op[1] == 'ut' else '')
        elif op[0] == 'nu' and op[1] == 'ut':
            name += '-typed'
        elif op[0] in ('ar', 'sr') and op[1] == 'ut':
            name += '-typed'
        elif op[0] in ('mu', 'dv') and len(op) > 2 and op[2] != 'i' and not (op[0] == 'mu' and op[1] == 0) and acc:
            name += '-numpy-factor'
        elif op[0] in ('ar', 'sr') and op[1] in ('self', 'selfview'):
            name += '-aliased'
        elif op[0] in ('ar', 'sr', 'nu') and len(op[2]) == 1:
            name += '-one-element'
        elif op[0] in ('ar', 'sr') and acc is False:
            name += '-collapse'
        elif op[0] == 'mu' and op[1] == 0:
            name += '-zero'
        elif op[0] == 'dv' and acc is False:
            name += '-inexact'
        elif op[0] == 'sl' and op[3] == 0:
            name += '-step0'
        elif op[0] == 'cv' and abs(ab[i - 1][0][1]) >= 2**52:
            name += '-interval-beyond-2^52'
        sym = []
        accepted = (oc == 'ok')
        if oc == 'OperandMismatch':
            sym.append('operand-samples-wrong')
        elif acc and not accepted:
            sym.append('raises-' + oc)
        elif not acc and accepted:
            sym.append('accepted')
        if not sym:
            sym = judge_axis(parse_axis(axes[0]), a)
            if not accepted and sym:
                sym = ['changed-on-reject'] + sym
        # originals of copies must stay as they were when the copy was taken (judged first: an
        # operation on a copy that reaches the original is its own defect)
        if op[0] in ('cp', 'cv', 'sl') and oc == 'ok' and len(axes) > 1:
            kept_obs.insert(0, (prev_axes[0] if prev_axes else None, 'slice-parent' if op[0] == 'sl' else 'original'))
        for j, (now, (then, kind)) in enumerate(zip(axes[1:], kept_obs)):
            if then is not None and now != then:
                sym.insert(0, kind + '-changed')
                break
        if sym == ['lookup'] and a[1] < 0:
            # every attribute describes the (decreasing) samples, only index_at does not cope
            return ('negative-interval/lookup', describe(init, ops, i, oc, axes, a, sym), i)
        if sym:
            return ('%s/%s' % (name, sym_key(sym, name)), describe(init, ops, i, oc, axes, a, sym), i)
        prev_axes = axes
    return None


# symptom families: one recorded defect shows as different subsets of one family depending on the
# operand (a ramp starting at 0 leaves t0 right, ...); a symptom outside the family of the
# operation is spelled out in the key, so that a different failure has a different key
FAMILY = {
    'iadd-scalar': [('t0-stale', {'t0'})],
    'isub-scalar': [('t0-stale', {'t0'})],
    'iadd-ramp': [('attrs-stale', {'t0', 'duration'})],
    'isub-ramp': [('interval-sign', {'t0', 'interval', 'duration', 'rate'}), ('interval-sign-zero', {'raises-ZeroDivisionError'})],
    'imul': [('attrs-stale', {'t0', 'duration'})],
    'imul-zero': [('changed-on-reject', {'changed-on-reject', 'samples', 'interval'})],
    'nonuniform-wrong-length': [('changed-on-reject', {'changed-on-reject', 'interval', 'rate'})],
    'slice': [('attrs-inherited', {'t0', 'interval', 'duration', 'rate'})],
    'convert': [('t0-dropped', {'samples', 't0'})],
}


def sym_key(sym, name=''):
    """stable classifier of a symptom list ('lookup' is a consequence of wrong attributes and only
    named when it is the sole symptom)"""
    core = [x for x in sym if x != 'lookup'] or list(sym)
    parts = []
    for oc_ in ('original-changed', 'slice-parent-changed'):
        if oc_ in core:
            parts.append(oc_)
            core = [x for x in core if x != oc_]
    if core:
        for label, fam in FAMILY.get(name, []):
            if set(core) <= fam:
                parts.append(label)
                break
        else:
            parts.append('+'.join(core))
    return '+'.join(parts)


def describe(init, ops, i, oc, axes, a, sym):
    return ('axis %s after ops %s: step %d outcome=%s observed %s; abstract (t0,Δ,n,unit)=%s; symptoms %s'
            % (tuple(init), [tok_op(o) for o in ops[:i]], i, oc, axes[:2], a, sym))[:900]


def slice_during_experiment(rng, tier):
    """slice_during on axes with a negative interval (reversed slices, scaling by -1) against brute
    force: the samples with start <= t < stop (oracle only; the C03 model owns slice_during)"""
    import warnings
    t = ts()
    fails, n = [], 0
    for _ in range(60 if tier == 'quick' else 600):
        m = rng.randint(1, 8)
        t0, dt, c = rng.randint(-5, 9), rng.randint(1, 3), rng.choice([-1, -2, -3])
        a2 = rng.randint(-20, 60)
        b2 = a2 + rng.randint(0, 40)
        spec = {'n': m, 't0': t0, 'dt': dt, 'c': c, 'start': a2 / 2.0, 'stop': b2 / 2.0, 'how': rng.choice(['slice', 'mul'])}
        f = slice_during_one(spec)
        n += 1
        if f:
            fails.append(f)
    return fails, n


def slice_during_one(spec):
    import warnings
    t = ts()
    with warnings.catch_warnings():
        warnings.simplefilter('ignore')
        u = t.UniformTime(t0=spec['t0'], length=spec['n'], sampling_interval=spec['dt'], time_unit='ms')
        if spec['how'] == 'slice':
            v = u[::spec['c']]
        else:
            v = u
            v *= -1
        want = [int(x) for x in np.asarray(v) if spec['start'] * 10**9 <= x < spec['stop'] * 10**9]
        try:
            sl = v.slice_during(t.Epochs(spec['start'], spec['stop'], time_unit='ms'))
            got = [int(x) for x in np.asarray(v[sl])]
        except Exception as e:  # noqa
            got = 'raises ' + err_kind(e)
    if got != want:
        return Failure('slice-during/negative-interval/wrong-selection',
                       'slice_during on a decreasing axis %s with epoch [%s, %s) ms selects %s, the samples inside are %s'
                       % ([int(x) // 10**9 for x in np.asarray(v)], spec['start'], spec['stop'], got, want),
                       {'key': 'slice-during/negative-interval/wrong-selection', 'slice_during': spec})
    return None


DERIVED_ROUTES = ['fancy', 'take', 'bool', 'compress', 'flip', 'tuple-slice', 'slice-rev', 'cumsum', 'm-cumsum', 'repeat', 'm-repeat', 'tile',
                  'npadd', 'npmul', 'scalar-left-mul', 'scalar-left-sub', 'npneg', 'floordiv', 'mod', 'abs', 'npabs', 'clip', 'maximum',
                  'delete', 'diff']


def derived_spec(rng, route):
    unit = rng.choice(UNITS)
    f = FACTOR[unit]
    m = rng.randint(3, 8)
    rec = {'route': route, 'donor': [rng.choice([0, 1, -4, 3, -9]) * f, rng.choice([1, 2, 3]) * f, m, unit]}
    if route in ('fancy', 'take'):
        k = rng.randint(2, m)
        rec['idx'] = sorted(rng.sample(range(m), k)) if rng.random() < 0.6 else [rng.randrange(m) for _ in range(k)]
    elif route in ('bool', 'compress'):
        keep = set(rng.sample(range(m), rng.randint(2, m)))
        rec['mask'] = [1 if i in keep else 0 for i in range(m)]
    elif route in ('repeat', 'm-repeat', 'tile'):
        rec['k'], rec['n'] = 2, 2 * m
    elif route in ('npadd', 'scalar-left-sub'):
        rec['k'] = rng.choice([5, -3, 1])
    elif route in ('npmul', 'scalar-left-mul'):
        rec['k'] = rng.choice([2, -1, 3])
    elif route in ('floordiv', 'mod'):
        rec['k'] = rng.choice([2, 3, 7])
    elif route in ('clip', 'maximum'):
        rec['lo'], rec['hi'] = rec['donor'][0] + rec['donor'][1], rec['donor'][0] + (m - 2) * rec['donor'][1]
    elif route == 'delete':
        rec['k'] = rng.randrange(m)
    return rec


def derived_one(rec, stats=None):
    """an array made FROM a uniform axis by indexing or by a numpy function: the axis it was made from stays as it
    was and the result holds the samples numpy's semantics say.  Whether such a result is still TYPED UniformTime
    with attributes that do not describe it is only COUNTED (`stats`): fancy / boolean indexing, np.flip / cumsum /
    repeat / …, ufuncs that are not in-place are not among the operations C17 quantifies over, so this is not a
    failure of the property (lead decision, session 3; see notes/C17.md "false alarms corrected").  Such objects
    are judged where the property does speak: as OPERANDS of += / -= (`ut` forms)"""
    import warnings
    route = rec['route']
    with warnings.catch_warnings():
        warnings.simplefilter('ignore')
        u = donor_axis(rec)
        before = obs_axis(u)
        try:
            obj = route_apply(rec, u)
        except Exception as e:  # noqa  (a refusal is honest)
            return None if obs_axis(u) == before else Failure('derived/%s/operand-changed' % route, 'the refused %s changed its operand' % route,
                                                                {'key': 'derived/%s/operand-changed' % route, 'derived': rec})
        want = route_expected(rec)
        if obs_axis(u) != before:
            key = 'derived/%s/operand-changed' % route
            return Failure(key, '%s of the axis %s changed the axis: now %s' % (route, before, obs_axis(u)), {'key': key, 'derived': rec})
        if not isinstance(obj, np.ndarray) or obj.ndim != 1:
            return None
        got = [int(v) for v in np.asarray(obj)] if np.asarray(obj).dtype.kind in 'iu' else None
        if got is not None and got != want:
            key = 'derived/%s/samples-wrong' % route
            return Failure(key, '%s of the axis %s holds %s, expected %s' % (route, donor_samples(rec), got, want), {'key': key, 'derived': rec})
        if isinstance(obj, ts().UniformTime):
            # it claims to be a uniform axis: then it must be one, described by its own attributes
            o = parse_axis(obs_axis(obj))
            dv = {b - a for a, b in zip(want, want[1:])}
            uniform = len(dv) <= 1 and len(want) >= 1
            a = (want[0], dv.pop() if dv else (o['dt'] if o else 0), len(want), rec['donor'][3]) if uniform and want else None
            sym = judge_axis(o, a) if a is not None else ['samples-not-uniform']
            if stats is not None:
                stats['typed'] = stats.get('typed', 0) + 1
                if sym:
                    stats['typed_not_described'] = stats.get('typed_not_described', 0) + 1
                    stats.setdefault('routes_typed_not_described', set()).add(route)
    return None


def derived_experiment(rng, tier):
    fails, n, stats = [], 0, {}
    for route in DERIVED_ROUTES:
        for _ in range(3 if tier == 'quick' else 30):
            f = derived_one(derived_spec(rng, route), stats)
            n += 1
            if f:
                fails.append(f)
    stats['routes_typed_not_described'] = sorted(stats.get('routes_typed_not_described', []))
    stats['n'] = n
    return fails, stats


def float_one(spec):
    """operands that are whole numbers held as floats (2.0, a float64 / float32 ramp): numpy's casting rule refuses
    them; whichever way it goes, a refusal leaves the axis as it was and an acceptance gives the exact result"""
    import warnings
    init, kind, vals, form = tuple(spec['init']), spec['kind'], spec['vals'], spec['form']
    dt_ = {'f64': np.float64, 'f32': np.float32}.get(form[-3:], np.float64)
    with warnings.catch_warnings():
        warnings.simplefilter('ignore')
        ax = mk_axis(init)
        before = obs_axis(ax)
        if kind in ('mu', 'dv', 'as', 'ss'):
            operand = (float(vals[0]) if form == 'pyf' else dt_(vals[0]) if form.startswith('n') else np.array(vals[0], dtype=dt_))
        else:
            operand = np.array(vals, dtype=dt_) if form != 'lf' else [float(v) for v in vals]
        try:
            fn = {'as': operator.iadd, 'ar': operator.iadd, 'ss': operator.isub, 'sr': operator.isub, 'mu': operator.imul, 'dv': operator.itruediv}[kind]
            ax = fn(ax, operand)
            oc = 'ok'
        except Exception as e:  # noqa
            oc = err_kind(e)
        if kind in ('mu', 'dv'):
            intop = (kind, int(vals[0]))
        elif kind in ('as', 'ss'):
            intop = (kind, 'i', int(vals[0]))
        else:
            intop = (kind, 'a64', [int(v) for v in vals], None)
        a0 = (init[1], init[2], init[3], init[0])
        a1, acc = abs_step(a0, intop)
        if oc != 'ok':
            sym = [] if obs_axis(ax) == before else ['changed-on-reject']
        elif not acc:
            sym = ['accepted']
        else:
            sym = judge_axis(parse_axis(obs_axis(ax)), a1)
    if sym:
        key = 'float-operand/%s/%s' % (KIND_NAME[kind], '+'.join(sym))
        return Failure(key, 'axis %s, %s with the float operand %s (%s): outcome %s, now %s; %s' % (init, kind, vals[:8], form, oc, obs_axis(ax)[:160], sym),
                       {'key': key, 'float': spec})
    return None


def float_experiment(rng, tier):
    fails, n = [], 0
    for _ in range(60 if tier == 'quick' else 600):
        init = gen_init(rng)
        kind = rng.choice(['as', 'ss', 'ar', 'sr', 'mu', 'dv'])
        m = init[3]
        if kind in ('ar', 'sr'):
            st = rng.choice([1, 2, -1])
            vals = [rng.randint(-2, 2) + i * st for i in range(m)]
            if m >= 3 and rng.random() < 0.4:
                vals[rng.randrange(1, m)] += 1
            form = rng.choice(['af64', 'af32', 'lf'])
        else:
            vals = [rng.choice([2, 1, -1, 0, 3])]
            form = rng.choice(['pyf', 'nf64', 'nf32', 'af64'])
        f = float_one({'init': list(init), 'kind': kind, 'vals': vals, 'form': form})
        n += 1
        if f:
            fails.append(f)
    return fails, n


def oracle(rng, tier, seed, focus, cases=None):
    fails, n = [], 0
    f_sd, n_sd = slice_during_experiment(rng, tier)
    fails += f_sd
    f_dr, st_dr = derived_experiment(rng, tier)
    fails += f_dr
    n_dr = st_dr
    f_fl, n_fl = float_experiment(rng, tier)
    fails += f_fl
    n_near = n_typed = n_chk = 0
    for c in (cases or []):
        if 'check' in c.meta:
            n_chk += 1
            r = judge_check(c.meta['check'])
            if r:
                fails.append(Failure(r[0], r[1], {'key': r[0], 'check': c.meta['check']}, case=c))
            continue
        n_near += any(len(o) > 5 and o[5] == 'near' for o in c.meta['ops'])
        n_typed += any(len(o) > 1 and o[1] == 'ut' for o in c.meta['ops'])
        n += 1
        init, ops = tuple(c.meta['init']), [tuple(o) for o in c.meta['ops']]
        r = judge(init, ops)
        if r:
            key, what, i = r
            fails.append(Failure(key, what, {'key': key, 'init': list(init), 'ops': [list(o) for o in ops[:i]]}, case=c))
    cur = sum(1 for c in (cases or []) if c.model and norm_outcomes(c.impl) == norm_outcomes(c.model.split(' ## ')[-1]))
    fix = sum(1 for c in (cases or []) if c.model and cmp_fixed(c.impl, c.model))
    return fails, {'slice_during_experiments': n_sd, 'derived_object_experiments': n_dr, 'float_operand_experiments': n_fl,
                   'check_cases': n_chk, 'histories_with_near_uniform_operand': n_near, 'histories_with_typed_operand': n_typed, 'judged': n, 'failed': len(fails), 'distinct_keys': len({f.key for f in fails}), 'focus': len(focus),
                   'histories_matching_repaired_model': fix, 'histories_matching_unrepaired_model': cur}


def replay(d):
    """re-run the recorded history on the current tree; it fails when the recorded symptom
    reproduces, or when the history fails in any way that is not a recorded finding"""
    import common
    if 'slice_during' in d:
        return slice_during_one(d['slice_during'])
    if 'derived' in d:
        return derived_one(d['derived'])
    if 'float' in d:
        return float_one(d['float'])
    if 'check' in d:
        r = judge_check(d['check'])
        return Failure(r[0], r[1], d) if r else None
    init = tuple(d['init'])
    ops = [tuple(o) for o in d['ops']]
    r = judge(init, ops)
    if r and (r[0] == d.get('key') or not common.match_known(r[0], common.load_findings(PID))):
        return Failure(r[0], r[1], d)
    return None
