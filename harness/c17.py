"""C17 — a uniform time axis stays self-consistent through any sequence of operations.

Correspondence: one protocol line = one whole operation history from an initial axis; the same
history is applied to a real `UniformTime`; after every step the observation
(outcome | abstract (t0,Δ,n,unit) | current axis | originals of earlier copies), each axis as
unit:t0:Δ:duration:rate-bits:samples:index_at(axis[i]) for all i, is compared with the Lean model
`Nitime.C17` (exact, including the binary64 rate).
Oracle (independent of the Lean model): a Python abstract machine on (t0, Δ, n, unit) in exact
integers; the implementation's samples, attributes, lookups, rejections and the originals of
copies are judged against it step by step; the first failing step of a history is reported.
"""
import itertools, operator, re
import numpy as np
from common import Case, Failure, f2x, err_kind

PID = 'C17'
LEAN_TARGETS = ['Nitime.Props.C17']
RULE = ('initial axes (unit, t0 of both signs, Δ, n in 1..8) drawn from VERIF_SEED; ALL sequences of op kinds '
        '{+=k, -=k, +=ramp, -=ramp, *=k, /=k, slice, copy, convert, non-uniform/wrong-length +=/-=, setitem} to depth 3 (quick) / 4 (thorough), '
        'operands concretised against the current length; distinct = distinct protocol line; non-trivial = at least one op')
ASSUMPTIONS = ['|t| < 2^62 ps throughout (operands are chosen so; overflow is not modelled)',
               'scalar operands are integers in the axis unit or time objects (a fractional bare scalar is refused by numpy\'s casting rule, not modelled)',
               'the parent of a slice (numpy view sharing the sample buffer) is not observed after operations on the slice']
TRUSTED_EXTRA = ['numpy: int64 in-place ufuncs, broadcasting errors, np.diff, slice.indices — modelled by their documented semantics (Model/C17.lean: shiftOp, rampStep, sliceIndices)',
                 'python float arithmetic = IEEE binary64 (Model/F64.lean, validated bit-for-bit by the C01 check); the rate is compared bit-exactly here']

UNITS = ['ps', 'ns', 'us', 'ms', 's', 'm']
FACTOR = {'ps': 1, 'ns': 10**3, 'us': 10**6, 'ms': 10**9, 's': 10**12, 'm': 60 * 10**12,
          'h': 3600 * 10**12, 'D': 86400 * 10**12, 'W': 604800 * 10**12}
LIM = 2**61
KINDS = ['as', 'ss', 'ar', 'sr', 'mu', 'dv', 'sl', 'cp', 'cv', 'nu', 'st']
KIND_NAME = {'as': 'iadd-scalar', 'ss': 'isub-scalar', 'ar': 'iadd-ramp', 'sr': 'isub-ramp', 'mu': 'imul', 'dv': 'idiv',
             'sl': 'slice', 'cp': 'copy', 'cv': 'convert', 'nu': 'nonuniform', 'st': 'setitem', 'init': 'init'}


def ts():
    import nitime.timeseries as t
    return t


# ------------------------------------------------------------------ the abstract machine (oracle side)
def slice_of(op):
    a, b, c = op[1], op[2], op[3]
    return slice(a, b, c)


def ramp_vals(op, unit):
    """operand values in ps"""
    if op[1] in ('t', 'u', 'self', 'selfview'):
        return list(op[2])
    return [v * FACTOR[unit] for v in op[2]]


def abs_step(a, op):
    """(t0, dt, n, unit), op -> (new abstract state, accepted?)   [None = either outcome is acceptable]"""
    t0, dt, n, unit = a
    k = op[0]
    if k in ('as', 'ss'):
        v = op[2] if op[1] == 't' else op[2] * FACTOR[unit]
        return (t0 + v if k == 'as' else t0 - v, dt, n, unit), True
    if k in ('ar', 'sr', 'nu'):
        sub = (k == 'sr') or (k == 'nu' and op[3] == 'sub')
        vals = ramp_vals(op, unit)
        dv = [y - x for x, y in zip(vals, vals[1:])]
        if len(vals) == 0:
            return a, False          # nothing to add: refused
        if len(vals) == 1:           # numpy broadcasts a single element: a shift
            return ((t0 - vals[0], dt, n, unit) if sub else (t0 + vals[0], dt, n, unit)), True
        acc = all(d == dv[0] for d in dv) and len(vals) == n
        if acc is False:
            return a, False
        d = dv[0] if dv else 0
        v0 = vals[0] if vals else 0
        new = (t0 - v0, dt - d, n, unit) if sub else (t0 + v0, dt + d, n, unit)
        if acc and d != 0 and new[1] == 0:
            return a, False      # the operand would put all samples on one instant: to be refused
        return (new if acc else a), acc
    if k == 'mu':
        if op[1] == 0:
            return a, False
        return (t0 * op[1], dt * op[1], n, unit), True
    if k == 'dv':
        q = op[1]
        if q == 0 or t0 % q or dt % q:
            return a, False
        return (t0 // q, dt // q, n, unit), True
    if k == 'sl':
        if op[3] == 0:
            return a, False
        r = range(*slice_of(op).indices(n))
        return (t0 + r.start * dt, dt * op[3], len(r), unit), True
    if k == 'cp':
        return a, True
    if k == 'cv':
        return (t0, dt, n, op[1]), True
    if k == 'st':
        return a, False
    raise ValueError(op)


# ------------------------------------------------------------------ protocol tokens
def tok_op(op):
    k = op[0]
    if k in ('as', 'ss'):
        return '%s:%s:%d' % (k, 'i' if op[1] != 't' else 't', op[2])
    if k in ('ar', 'sr', 'nu'):
        kk = k if k != 'nu' else ('sr' if op[3] == 'sub' else 'ar')
        if op[1] in ('self', 'selfview'):
            return kk + ':self'
        return '%s:%s:%s' % (kk, 't' if op[1] in ('t', 'u') else 'i', ','.join(str(v) for v in op[2]) if op[2] else '-')
    if k in ('mu', 'dv'):
        return '%s:%d' % (k, op[1])
    if k == 'sl':
        return 'sl:%s:%s:%d' % tuple(['n' if v is None else str(v) for v in op[1:3]] + [op[3]])
    if k == 'cp':
        return 'cp'
    if k == 'cv':
        return 'cv:' + op[1]
    if k == 'st':
        return 'st'
    raise ValueError(op)


# ------------------------------------------------------------------ implementation adapter
def mk_time(ps, unit, scalar):
    T = ts().TimeArray
    t = T(np.int64(ps) if scalar else np.array(ps, dtype=np.int64), time_unit='ps')
    t.convert_unit(unit)
    return t


def mk_operand(op, unit, ax=None):
    k = op[0]
    if k in ('as', 'ss'):
        if op[1] == 't':
            return mk_time(op[2], op[3], True)
        return np.int64(op[2]) if op[1] == 'n' else int(op[2])
    form, vals = op[1], op[2]
    if form == 'self':
        return ax
    if form == 'selfview':
        return ax[:]
    if form == 'u':       # another uniform axis (ps values uniform, positive step, whole units of op[4])
        u2 = op[4]
        f = FACTOR[u2]
        return ts().UniformTime(t0=vals[0] // f, sampling_interval=(vals[1] - vals[0]) // f, length=len(vals), time_unit=u2)
    if form == 't':
        return mk_time(vals, op[4] if len(op) > 4 else unit, False)
    if form == 'l':
        return list(vals)
    return np.array(vals, dtype=np.int32 if form == 'a32' else np.int64)


def apply_op(ax, op):
    """returns (axis after, outcome, original kept or None)"""
    k = op[0]
    try:
        if k in ('as', 'ar') or (k == 'nu' and op[3] == 'add'):
            ax = operator.iadd(ax, mk_operand(op, ax.time_unit, ax))
        elif k in ('ss', 'sr', 'nu'):
            ax = operator.isub(ax, mk_operand(op, ax.time_unit, ax))
        elif k == 'mu':
            ax = operator.imul(ax, op[1])
        elif k == 'dv':
            ax = operator.itruediv(ax, op[1])
        elif k == 'sl':
            return ax[slice_of(op)], 'ok', ax      # the parent stays observed: the slice must not write through to it
        elif k == 'cp':
            return ax.copy(), 'ok', ax
        elif k == 'cv':
            return ts().UniformTime(ax, time_unit=op[1]), 'ok', ax
        elif k == 'st':
            if op[1] == 'i':
                ax[op[2]] = op[3]
            else:
                ax[op[2]:] = op[3]
        return ax, 'ok', None
    except Exception as e:  # noqa
        return ax, err_kind(e), None


def obs_axis(ax):
    try:
        s = [int(v) for v in np.asarray(ax).reshape(-1)]
        looks = []
        for i in range(len(s)):
            try:
                looks.append(str(int(ax.index_at(ax[i]))))
            except Exception:  # noqa
                looks.append('e')
        return '%s:%d:%d:%d:%s:%s:%s' % (ax.time_unit, int(ax.t0), int(ax.sampling_interval), int(ax.duration),
                                         f2x(float(ax.sampling_rate))[1:], ','.join(map(str, s)) if s else '-',
                                         ','.join(looks) if looks else '-')
    except Exception as e:  # noqa
        return 'unobservable:' + err_kind(e)


def mk_axis(init):
    unit, t0, dt, n = init
    f = FACTOR[unit]
    return ts().UniformTime(t0=t0 // f, sampling_interval=dt // f, length=n, time_unit=unit)


def run_impl(init, ops):
    """-> list of (outcome, [obs cur, obs kept...]) after construction and after every op"""
    import warnings
    with warnings.catch_warnings():
        warnings.simplefilter('ignore')
        ax = mk_axis(init)
        kept = []
        out = [('ok', [obs_axis(ax)])]
        for op in ops:
            ax, oc, orig = apply_op(ax, op)
            if orig is not None:
                kept.insert(0, orig)
            out.append((oc, [obs_axis(ax)] + [obs_axis(k) for k in kept]))
        return out


def abs_trace(init, ops):
    unit, t0, dt, n = init
    a = (t0, dt, n, unit)
    out = [(a, True)]
    for op in ops:
        a, acc = abs_step(a, op)
        out.append((a, acc))
    return out


def impl_string(init, ops):
    steps = run_impl(init, ops)
    ab = abs_trace(init, ops)
    parts = []
    for (oc, axes), (a, _) in zip(steps, ab):
        parts.append('%s|%d,%d,%d,%s|%s' % (oc, a[0], a[1], a[2], a[3], '|'.join(axes)))
    return 'ok ' + ';'.join(parts), steps, ab


def line_of(init, ops):
    unit, t0, dt, n = init
    return 'C17 both %s %d %d %d %s' % (unit, t0, dt, n, ';'.join(tok_op(o) for o in ops) if ops else '-')


# ------------------------------------------------------------------ generators
def gen_init(rng, n=None, big=False):
    if big:   # magnitudes beyond 2^53 ps: t0 and/or Δ not representable in binary64
        t0 = rng.choice([2**53 + 1, -(2**53) - 1, 2**55 + 3, 5])
        dt = rng.choice([3, 2**53 + 1, 2**54 + 2, 7]) if abs(t0) > 100 else 2**53 + 1
        return ('ps', t0, dt, n if n is not None else rng.randint(1, 5))
    unit = rng.choice(UNITS)
    f = FACTOR[unit]
    t0 = rng.choice([0, 0, 1, 5, -3, -1, 10, -12, 7]) * f
    dt = rng.choice([1, 1, 2, 3, 4, 6, 10]) * f
    n = n if n is not None else rng.randint(1, 8)
    return (unit, t0, dt, n)


def concretise(rng, kind, a):
    """an operation of this kind that is meaningful for the abstract state `a`"""
    t0, dt, n, unit = a
    f = FACTOR[unit]
    room = abs(t0) + (n + 2) * abs(dt) < LIM // 64
    if kind in ('as', 'ss'):
        form = rng.choice(['i', 'i', 'n', 't', 'ax'])
        if form == 'ax':   # derived from the axis itself: exactly ±Δ, ±t0, ±(n-1)Δ
            v = rng.choice([dt, -dt, t0, -t0, (n - 1) * dt, -n * dt, 1, -1])
            return (kind, 't', v if abs(v) < LIM // 64 else 0, 'ps')
        if form == 't':
            u2 = rng.choice(UNITS)
            return (kind, 't', rng.randint(-9, 9) * FACTOR[u2] if room else 0, u2)
        return (kind, form, rng.randint(-9, 9) if room else 0)
    if kind in ('ar', 'sr'):
        sgn = 1 if kind == 'ar' else -1
        form = rng.choice(['u', 'l', 'a64', 'a32', 't', 'u', 'ax', 'self', 'one'])
        if form == 'self' and room:
            # the axis itself / a view of all of it as the operand (t += t, t -= t[:])
            return (kind, rng.choice(['self', 'selfview']), [t0 + i * dt for i in range(n)], None, 'ps')
        if form == 'one' and room:
            # a 1-d operand with a single element, whatever the length of the axis
            f1 = rng.choice(['l', 'a64', 'a32', 't'])
            v = rng.randint(-9, 9)
            return (kind, 't', [v * f], None, unit) if f1 == 't' else (kind, f1, [v], None)
        if form in ('self', 'one'):
            form = 'a64'
        if form == 'ax' and n >= 1 and room:
            # the axis itself, its negative, or a ramp whose step cancels the interval (Δ' = 0)
            w = rng.choice(['self', 'neg', 'cancel', 'cancel'])
            if w == 'self':
                vals = [t0 + i * dt for i in range(n)]
            elif w == 'neg':
                vals = [-(t0 + i * dt) for i in range(n)]
            else:
                vals = [5 - sgn * i * dt for i in range(n)]
            return (kind, 't', vals, None, 'ps')
        if form == 'ax':
            form = 'a64'
        if n == 0 and form in ('u', 't'):
            form = 'a64'    # an empty time object cannot even be constructed
        if form in ('u', 't'):
            u2 = rng.choice([unit, unit, rng.choice(UNITS)])
            f2 = FACTOR[u2]
            st = rng.choice([1, 1, 2, 3, 5]) if room else 1
            if form == 't' and rng.random() < 0.5:
                st = -st
            if dt + sgn * st * f2 == 0:
                st += 1
            a0 = rng.choice([0, 0, 1, 4, -2]) if room else 0
            vals = [(a0 + i * st) * f2 for i in range(n)]
            if form == 'u' and n < 2:
                form = 't'
            return (kind, form, vals, None, u2)
        st = rng.choice([1, 1, 2, -1, 3, -2]) if room else 1
        if dt + sgn * st * f == 0:
            st += 1 if st > 0 else -1
            if dt + sgn * st * f == 0:
                st = 7
        a0 = rng.choice([0, 0, 1, 4, -2]) if room else 0
        return (kind, form, [a0 + i * st for i in range(n)], None)
    if kind == 'mu':
        if not room:
            return ('mu', 1)
        return ('mu', rng.choice([2, 3, 2, 1, 5, -1, -1, 0, -2]))
    if kind == 'dv':
        c = rng.random()
        if c < 0.55:   # an exact divisor of both t0 and dt (besides 1 when possible)
            import math
            g = math.gcd(abs(t0), abs(dt)) or 1
            cand = [q for q in (2, 3, 4, 5, 6, 10, 1000, -2, -1, g, -g) if g % q == 0] or [1]
            return ('dv', rng.choice(cand))
        return ('dv', rng.choice([2, 3, 7, 0, 1, 11, -1, -3]))
    if kind == 'sl':
        c = rng.choice([1, 2, 2, 3, -1, -2, -3, 1, max(n, 1), -max(n, 1), n + 1, 0 if rng.random() < 0.3 else 2])
        pick = lambda: rng.choice([None, None, 0, 1, 2, 3, -1, -2, n, n + 2, -n - 1, n // 2])
        return ('sl', pick(), pick(), c)
    if kind == 'cp':
        return ('cp',)
    if kind == 'cv':
        return ('cv', rng.choice(UNITS))
    if kind == 'st':
        if rng.random() < 0.6:
            return ('st', 'i', rng.randrange(n) if n else 0, rng.randint(0, 50))
        return ('st', 's', rng.randrange(n) if n else 0, rng.randint(0, 50))
    if kind == 'nu':
        which = rng.choice(['add', 'sub'])
        form = rng.choice(['l', 'a64', 'a32', 't'])
        if n >= 3 and rng.random() < 0.7:
            vals = [i for i in range(n)]
            j = rng.randrange(1, n) if rng.random() < 0.7 else n - 1
            for i in range(j, n):
                vals[i] += rng.choice([1, 2, -1])
            dv = [y - x for x, y in zip(vals, vals[1:])]
            if all(d == dv[0] for d in dv):   # shifting a suffix of a ramp from index 1 keeps it uniform only if n == 2
                vals[-1] += 1
        else:   # uniform but of the wrong length (>= 2)
            m = rng.choice([n + 1, n + 2, max(2, n - 1)])
            if m == n:
                m = n + 1
            vals = list(range(m))
        if form == 't':
            return ('nu', 't', [v * f for v in vals], which, unit)
        return ('nu', form, vals, which)
    raise ValueError(kind)


def build_case(rng, init, kinds):
    """concretise the kinds one after the other against the abstract state"""
    a = (init[1], init[2], init[3], init[0])
    ops = []
    for k in kinds:
        op = concretise(rng, k, a)
        ops.append(op)
        a, _ = abs_step(a, op)
    return make_case(init, ops)


def make_case(init, ops):
    impl, steps, ab = impl_string(init, ops)
    clause = 'history/' + '.'.join(o[0] for o in ops) if len(ops) <= 2 else 'history/depth%d' % len(ops)
    return Case(line_of(init, ops), impl, clause, cmp=cmp_fixed, meta={'init': list(init), 'ops': [list(o) for o in ops]},
                nontrivial=bool(ops))


def cmp_fixed(impl, model):
    """the driver answers `<trace of the repaired model> ## <trace of the unrepaired model>`; the
    implementation has to follow the repaired one"""
    return norm_outcomes(impl) == norm_outcomes(model.split(' ## ')[0])


_OUTCOME = re.compile(r'(^ok |;)(?!ok\|)[A-Za-z:]+\|')


def norm_outcomes(s):
    """the property speaks of operations being *rejected*; which exception class does it is not
    compared (e.g. today's `/= 0` raises AttributeError where the repaired code raises ValueError)"""
    return _OUTCOME.sub(lambda m: m.group(1) + 'rejected|', s)


def cases(rng, tier, seed):
    out = []
    if tier == 'quick':
        plan = [(3, 5)]
    else:
        plan = [(4, 4), (3, 24)]
    # a fixed corpus first: the histories behind the recorded findings
    for init, ops in CORPUS:
        out.append(make_case(init, ops))
    for depth, naxes in plan:
        for i in range(naxes):
            init = gen_init(rng, n=[4, 1, 2, 8, 3][i] if i < 5 else None, big=(i == 4 or i % 6 == 5))
            for kinds in itertools.product(KINDS, repeat=depth):
                out.append(build_case(rng, init, kinds))
    return out


S = FACTOR['ms']
CORPUS = [
    (('ms', 1 * S, 2 * S, 4), [('as', 'i', 3)]),
    (('ms', 1 * S, 2 * S, 4), [('ss', 'i', 1)]),
    (('ms', 1 * S, 2 * S, 4), [('ar', 'u', [0, S, 2 * S, 3 * S], None, 'ms')]),
    (('ms', 1 * S, 2 * S, 4), [('sr', 'u', [0, S, 2 * S, 3 * S], None, 'ms')]),
    (('ms', 1 * S, 2 * S, 4), [('mu', 2)]),
    (('ms', 2 * S, 2 * S, 4), [('dv', 2)]),
    (('ms', 1 * S, 2 * S, 4), [('sl', 1, 4, 2)]),
    (('ms', 1 * S, 2 * S, 4), [('cp',), ('ar', 'l', [0, 1, 2, 3], None)]),
    (('ms', 1 * S, 2 * S, 4), [('cv', 's')]),
    (('ms', 1 * S, 2 * S, 4), [('nu', 'a64', [0, 1, 3, 4], 'add')]),
    (('ms', 1 * S, 2 * S, 4), [('nu', 'a64', [0, 1], 'add')]),
    (('ms', 1 * S, 2 * S, 4), [('st', 'i', 0, 42)]),
    (('ms', 1 * S, 2 * S, 4), [('mu', 0)]),
    (('s', 3000 * S, 2000 * S, 4), [('ar', 'self', [3000 * S, 5000 * S, 7000 * S, 9000 * S], None, 'ps')]),
    (('s', 3000 * S, 2000 * S, 4), [('ar', 'selfview', [3000 * S, 5000 * S, 7000 * S, 9000 * S], None, 'ps')]),
    (('s', 3000 * S, 2000 * S, 4), [('sr', 'self', [3000 * S, 5000 * S, 7000 * S, 9000 * S], None, 'ps')]),
    (('s', 3000 * S, 2000 * S, 1), [('ar', 'a64', [5], None)]),
    (('s', 3000 * S, 2000 * S, 4), [('sr', 'l', [1], None)]),
    (('s', 3000 * S, 2000 * S, 4), [('sl', None, None, -1)]),
    (('s', 0, 2000 * S, 5), [('sl', 1, 3, 1), ('as', 'i', 5)]),
    (('s', 3000 * S, 2000 * S, 4), [('mu', -1), ('as', 'i', 2)]),
]


# ------------------------------------------------------------------ oracle
def parse_axis(s):
    p = s.split(':')
    if len(p) != 7:
        return None
    import struct
    rate = struct.unpack('<d', struct.pack('<Q', int(p[4], 16)))[0]
    return {'unit': p[0], 't0': int(p[1]), 'dt': int(p[2]), 'dur': int(p[3]), 'rate': rate,
            'samples': [] if p[5] == '-' else [int(v) for v in p[5].split(',')],
            'looks': [] if p[6] == '-' else p[6].split(',')}


def judge_axis(o, a):
    """symptoms of one observed axis against the abstract state a = (t0, dt, n, unit), in priority order"""
    t0, dt, n, unit = a
    if o is None:
        return ['unobservable']
    sym = []
    want = [t0 + i * dt for i in range(n)]
    if o['samples'] != want:
        sym.append('samples')
    if o['t0'] != t0:
        sym.append('t0')
    if o['dt'] != dt:
        sym.append('interval')
    if o['dur'] != n * dt:
        sym.append('duration')
    if dt != 0 and not (abs(o['rate'] * dt - 1e12) <= 1e-9 * 1e12):
        sym.append('rate')
    if o['unit'] != unit:
        sym.append('unit')
    if dt != 0 and o['looks'] != [str(i) for i in range(n)]:
        sym.append('lookup')
    return sym


def judge(init, ops, steps=None):
    """first failing step of the history -> (key, what, step index) or None"""
    if steps is None:
        steps = run_impl(init, ops)
    ab = abs_trace(init, ops)
    kept_obs = []       # observation of each kept original at the time it was kept
    prev_axes = None
    for i, ((oc, axes), (a, acc)) in enumerate(zip(steps, ab)):
        op = ops[i - 1] if i else ('init',)
        name = KIND_NAME[op[0]]
        if op[0] in ('ar', 'sr', 'nu') and len(op[2]) != ab[i - 1][0][2] and len(op[2]) != 1:
            name += '-wrong-length'
        elif op[0] in ('ar', 'sr') and op[1] in ('self', 'selfview'):
            name += '-aliased'
        elif op[0] in ('ar', 'sr', 'nu') and len(op[2]) == 1:
            name += '-one-element'
        elif op[0] in ('ar', 'sr') and acc is False:
            name += '-collapse'
        elif op[0] == 'mu' and op[1] == 0:
            name += '-zero'
        elif op[0] == 'dv' and acc is False:
            name += '-inexact'
        elif op[0] == 'sl' and op[3] == 0:
            name += '-step0'
        elif op[0] == 'cv' and abs(ab[i - 1][0][1]) >= 2**52:
            name += '-interval-beyond-2^52'
        sym = []
        accepted = (oc == 'ok')
        if False:
            pass
        elif acc and not accepted:
            sym.append('raises-' + oc)
        elif not acc and accepted:
            sym.append('accepted')
        if not sym:
            sym = judge_axis(parse_axis(axes[0]), a)
            if not accepted and sym:
                sym = ['changed-on-reject'] + sym
        # originals of copies must stay as they were when the copy was taken (judged first: an
        # operation on a copy that reaches the original is its own defect)
        if op[0] in ('cp', 'cv', 'sl') and oc == 'ok' and len(axes) > 1:
            kept_obs.insert(0, (prev_axes[0] if prev_axes else None, 'slice-parent' if op[0] == 'sl' else 'original'))
        for j, (now, (then, kind)) in enumerate(zip(axes[1:], kept_obs)):
            if then is not None and now != then:
                sym.insert(0, kind + '-changed')
                break
        if sym == ['lookup'] and a[1] < 0:
            # every attribute describes the (decreasing) samples, only index_at does not cope
            return ('negative-interval/lookup', describe(init, ops, i, oc, axes, a, sym), i)
        if sym:
            return ('%s/%s' % (name, sym_key(sym, name)), describe(init, ops, i, oc, axes, a, sym), i)
        prev_axes = axes
    return None


# symptom families: one recorded defect shows as different subsets of one family depending on the
# operand (a ramp starting at 0 leaves t0 right, ...); a symptom outside the family of the
# operation is spelled out in the key, so that a different failure has a different key
FAMILY = {
    'iadd-scalar': [('t0-stale', {'t0'})],
    'isub-scalar': [('t0-stale', {'t0'})],
    'iadd-ramp': [('attrs-stale', {'t0', 'duration'})],
    'isub-ramp': [('interval-sign', {'t0', 'interval', 'duration', 'rate'}), ('interval-sign-zero', {'raises-ZeroDivisionError'})],
    'imul': [('attrs-stale', {'t0', 'duration'})],
    'imul-zero': [('changed-on-reject', {'changed-on-reject', 'samples', 'interval'})],
    'nonuniform-wrong-length': [('changed-on-reject', {'changed-on-reject', 'interval', 'rate'})],
    'slice': [('attrs-inherited', {'t0', 'interval', 'duration', 'rate'})],
    'convert': [('t0-dropped', {'samples', 't0'})],
}


def sym_key(sym, name=''):
    """stable classifier of a symptom list ('lookup' is a consequence of wrong attributes and only
    named when it is the sole symptom)"""
    core = [x for x in sym if x != 'lookup'] or list(sym)
    parts = []
    for oc_ in ('original-changed', 'slice-parent-changed'):
        if oc_ in core:
            parts.append(oc_)
            core = [x for x in core if x != oc_]
    if core:
        for label, fam in FAMILY.get(name, []):
            if set(core) <= fam:
                parts.append(label)
                break
        else:
            parts.append('+'.join(core))
    return '+'.join(parts)


def describe(init, ops, i, oc, axes, a, sym):
    return ('axis %s after ops %s: step %d outcome=%s observed %s; abstract (t0,Δ,n,unit)=%s; symptoms %s'
            % (tuple(init), [tok_op(o) for o in ops[:i]], i, oc, axes[:2], a, sym))[:900]


def slice_during_experiment(rng, tier):
    """slice_during on axes with a negative interval (reversed slices, scaling by -1) against brute
    force: the samples with start <= t < stop (oracle only; the C03 model owns slice_during)"""
    import warnings
    t = ts()
    fails, n = [], 0
    for _ in range(60 if tier == 'quick' else 600):
        m = rng.randint(1, 8)
        t0, dt, c = rng.randint(-5, 9), rng.randint(1, 3), rng.choice([-1, -2, -3])
        a2 = rng.randint(-20, 60)
        b2 = a2 + rng.randint(0, 40)
        spec = {'n': m, 't0': t0, 'dt': dt, 'c': c, 'start': a2 / 2.0, 'stop': b2 / 2.0, 'how': rng.choice(['slice', 'mul'])}
        f = slice_during_one(spec)
        n += 1
        if f:
            fails.append(f)
    return fails, n


def slice_during_one(spec):
    import warnings
    t = ts()
    with warnings.catch_warnings():
        warnings.simplefilter('ignore')
        u = t.UniformTime(t0=spec['t0'], length=spec['n'], sampling_interval=spec['dt'], time_unit='ms')
        if spec['how'] == 'slice':
            v = u[::spec['c']]
        else:
            v = u
            v *= -1
        want = [int(x) for x in np.asarray(v) if spec['start'] * 10**9 <= x < spec['stop'] * 10**9]
        try:
            sl = v.slice_during(t.Epochs(spec['start'], spec['stop'], time_unit='ms'))
            got = [int(x) for x in np.asarray(v[sl])]
        except Exception as e:  # noqa
            got = 'raises ' + err_kind(e)
    if got != want:
        return Failure('slice-during/negative-interval/wrong-selection',
                       'slice_during on a decreasing axis %s with epoch [%s, %s) ms selects %s, the samples inside are %s'
                       % ([int(x) // 10**9 for x in np.asarray(v)], spec['start'], spec['stop'], got, want),
                       {'key': 'slice-during/negative-interval/wrong-selection', 'slice_during': spec})
    return None


def oracle(rng, tier, seed, focus, cases=None):
    fails, n = [], 0
    f_sd, n_sd = slice_during_experiment(rng, tier)
    fails += f_sd
    for c in (cases or []):
        n += 1
        init, ops = tuple(c.meta['init']), [tuple(o) for o in c.meta['ops']]
        r = judge(init, ops)
        if r:
            key, what, i = r
            fails.append(Failure(key, what, {'key': key, 'init': list(init), 'ops': [list(o) for o in ops[:i]]}, case=c))
    cur = sum(1 for c in (cases or []) if c.model and norm_outcomes(c.impl) == norm_outcomes(c.model.split(' ## ')[-1]))
    fix = sum(1 for c in (cases or []) if c.model and cmp_fixed(c.impl, c.model))
    return fails, {'slice_during_experiments': n_sd, 'judged': n, 'failed': len(fails), 'distinct_keys': len({f.key for f in fails}), 'focus': len(focus),
                   'histories_matching_repaired_model': fix, 'histories_matching_unrepaired_model': cur}


def replay(d):
    """re-run the recorded history on the current tree; it fails when the recorded symptom
    reproduces, or when the history fails in any way that is not a recorded finding"""
    import common
    if 'slice_during' in d:
        return slice_during_one(d['slice_during'])
    init = tuple(d['init'])
    ops = [tuple(o) for o in d['ops']]
    r = judge(init, ops)
    if r and (r[0] == d.get('key') or not common.match_known(r[0], common.load_findings(PID))):
        return Failure(r[0], r[1], d)
    return None
