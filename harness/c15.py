"""C15 — analyzers and file readers are faithful, unit-aware front ends.

Correspondence: for every analyzer output that is a TimeSeries, the axis (unit, t0 ps, interval ps,
n, stored rate, first/last entry of .time) of the REAL output vs the Lean model `Nitime.C15`
driven by the GENERATED construction-site descriptors (chains of sites where one getter feeds
another); the constructor itself (`mk`, `mkrate`, `rate`); `concatenate_time_series` and the
voxel selection of `time_series_from_file` on generated NIfTI files (data tokens pass through the
model unchanged, so data equality is exact).
Oracle (never the Lean model): the property's own expectations — output axis = input axis (or the
documented lag / offset axis), Fs = 10^12/interval_ps in Hz, analyzer output = direct algorithm call
on input.data with that Fs, file data = plain nested-loop indexing of nibabel's array.
"""
import os, sys, json, tempfile, warnings, shutil
for _v in ('OMP_NUM_THREADS', 'OPENBLAS_NUM_THREADS', 'MKL_NUM_THREADS'):   # small problems: threads only add contention
    os.environ.setdefault(_v, '1')
from fractions import Fraction as Fr
import numpy as np
import common
from common import Case, Failure, f2x, x2f

PID = 'C15'
LEAN_TARGETS = ['Nitime.Props.C15', 'Nitime.Props.C15Opts', 'Nitime.Props.C19Rows', 'Nitime.Props.C15Obj', 'Nitime.Props.C15Band', 'Nitime.Props.C15Cross']
RULE = ('inputs: units s/ms/us x intervals {whole, decimal, known re-quantising (0.81327 s, 2.3 ms, 1.7 us ...), random} x '
        'non-zero t0 x 1-/2-/3-d data where the analyzer admits it; every TimeSeries-valued analyzer output + spectral/'
        'coherence/correlation/SNR/Granger/event-related array outputs; generated NIfTI volumes (single/multiple files, '
        'coordinate arrays and ROI lists, TR number/None/time object, both normalisations x average x all four filter methods, '
        'refused options, verbose); series LENGTHS stratified in every generator (primes / 2*prime / large non-smooth 301, 999, '
        '1021 / 2-3-5-smooth / tiny-odd / other composites); HISTORIES of reads and in-place modifications on the same files '
        '(whole -> modify -> ROI / whole / multi-file; two live series; np.shares_memory); long intervals 2^40..2^50 ps; '
        'event-related analyzer on 2-d data x 2-d event series whose rows differ in code sets / counts / placements (and through the C19 model: dtypes, '
        'argument forms, Events with data columns); volumes stored as int16 / uint8 / float32 and with scl_slope / scl_inter; HISTORIES of reader calls with '
        'non-default values of every option before the judged default call; non-default values of the analyzers\' optional arguments; '
        'ROUND 2 (harness/c15_r2.py): failure histories on ONE analyzer object (reads that raise part-way: NaN / flat / inf / slow-AR channel, bad pair index, '
        'refused filter design, refused set_input) followed by set_input and reads judged against fresh analyzers and the direct algorithm call, vars() snapshots; '
        'seeds / inputs / event series / runs / coordinate arrays that are views of each other or the same object (row-strided, reversed, transposed-back, '
        'Fortran, duplicated rows), in-place change of one object then re-inspection of the other; '
        'ROUND 4 (harness/c15_r4.py): three long count-valued recordings per run (2^11 +- 1, 2^12, 2^13 + 1, 2500, 3001, 4097 samples, rotated by the seed) with one 1e9 '
        'transient per channel, judged by the oracle only against exact integer lag sums / rational moments / definitions by np.fft on the series length / Parseval; '
        'fourier band edges exactly ON a DFT bin and one ulp to either side (round numbers such as TR 2 s x 200 volumes x 0.01-0.1 Hz, dyadic grids, arbitrary '
        'lengths; only tie-free configurations) through FilterAnalyzer and time_series_from_file, and as kept-bin masks against the Lean model; '
        'ROUND 5 (harness/c15_r5.py): runs of MIXED dtypes (int16 / int32 / uint8 / float32 / float64 / complex64 / complex128, every ordered pair, 2-4 runs, 1-d / 2-d, '
        'different lengths / t0 / units) against the exact float64 / complex128 embeddings, files whose stored dtypes differ; for every output of every analyzer class two live '
        'objects on series that differ ONLY in sampling rate / length / unit / t0 with the same parameters in Hz: this process A-then-B, a fresh interpreter B-then-A, plus the '
        'direct algorithm call on each object\'s own data and rate; the reader twice with one filter dict and two TRs; histories of `.fir` requests (same taps / band / window at '
        'different rates, repeats) and exact-grid runs of four dtypes against the Lean model (`firhist`, `concatdt`); '
        'distinct = distinct protocol line; non-trivial = t0 != 0 or unit != s or re-quantising interval')
ASSUMPTIONS = ['numpy/scipy routines called by the analyzers are taken as the algorithm layer (data fidelity is judged against direct calls of that layer)',
               'nibabel get_fdata() is the reference content of a NIfTI file',
               'picosecond magnitudes stay below 2^53 (intervals < 2.5 h) so int64->float64 conversions in the constructor are exact']
TRUSTED_EXTRA = ['harness/translate_c15.py gen_module_state (AST extraction of module-level names written inside functions / caching decorators of nitime/analysis/*.py and of the '
                 'block-building expression of concatenate_time_series into Generated/ModuleState.lean); Model/C15Cross.lean abstracts the FIR design to the quantities it is computed from '
                 '(taps, window, edges over the rate) and a dtype to a rounding map on a 2^-8 grid (float32 = a coarser grid); the numeric kernels / real float32 rounding are judged per run',
                 'harness/translate_c15.py gen_analyzer_state (AST extraction of attribute stores on self outside __init__/set_input/reset, uses of the instance dict, '
                 'writes into attribute-held objects, set_input overrides without reset, and memory-layout / identity probes in nitime/analysis/*.py and nitime/fmri/io.py '
                 'into Generated/AnalyzerState.lean); BaseAnalyzer.reset() deletes exactly the OneTimeProperty entries of the instance dict (descriptors.py, C07\'s subject); '
                 'the object model of Model/C15Obj.lean abstracts fit_model / the pairwise coherency to parameters `fit` / `pair` (their values are judged per run)',
                 'harness/translate_c15.py gen_reader_opts (AST extraction of the `<param>.get(key, literal)` sites and of module-level names written / read inside '
                 'functions of nitime/fmri/io.py into Generated/ReaderOpts.lean); FilterAnalyzer.__init__ taken as the sink of the reader\'s options (its own fidelity is judged separately)',
                 'the event-related DATA cases of C15 run the C19 model (Model/C19.lean) and C19\'s independent oracle (planted truth / exact rational averages)',
                 'harness/translate_c15.py (AST extraction of TimeSeries(...) call sites into Generated/SeriesCalls.lean; of get_fdata() sites, module state '
                 'and decorators of nitime/fmri/io.py into Generated/ReaderLoads.lean; of FFT-type calls into Generated/TransformCalls.lean)',
                 'nibabel: load() returns a new image object per call and an image hands out the array it cached (the two facts the heap model of the reader encodes)',
                 'data fidelity of analyzers (output = algorithm(input.data, Fs)) is checked per run by the python oracle, not proved',
                 'numpy fancy indexing / np.concatenate / nibabel modelled by their documented semantics (selectVoxels, concatData)',
                 'harness/translate_c15.py gen_band_select (AST extraction of the comparisons / index searches of FilterAnalyzer.filtered_fourier and of the product-summing '
                 'calls of correlation.py with the import that binds their callee into Generated/BandSelect.lean)',
                 'np.fft.rfftfreq(n) * Fs modelled as (m * (1.0 / n)) * Fs in binary64 (Model/C15Band.binFreq); the code\'s pass band is observed from outside as the '
                 'DFT of its answer to a unit impulse; long recordings (n > 2000) are judged by the python oracle only, the Lean model does not run at those sizes']

warnings.simplefilter('ignore')
FACTOR = {'ps': 1, 'ns': 10**3, 'us': 10**6, 'ms': 10**9, 's': 10**12}
UNITS = ['s', 'ms', 'us']
BAD_IV = {'s': [0.81327, 0.9], 'ms': [2.3, 813.27, 13.1], 'us': [1.7, 0.81327, 2.3]}     # rate -> interval loses 1 ps
GOOD_IV = {'s': [0.5, 2.0, 1.5, 0.25, 0.1, 0.004], 'ms': [0.5, 2.0, 1.0, 100.0, 0.81327, 0.25], 'us': [0.5, 100.0, 813.27, 10.0, 2.5]}
T0S = [2.5, 5.0, -1.25, 100.0, 0.75, 17.0]


def nt():
    import nitime.timeseries as t
    return t


def na():
    import nitime.analysis as a
    return a


# ------------------------------------------------------------------ canonicalisation
def ps_of(t):
    return int(np.asarray(t).astype(np.int64).reshape(-1)[0])


def axis_of(S):
    """(unit, t0 ps, dt ps, n, fs float, first, last, len(time))"""
    tm = np.asarray(S.time).astype(np.int64)
    n = int(S.data.shape[-1])
    return dict(unit=S.time_unit, t0=ps_of(S.t0), dt=ps_of(S.sampling_interval), n=n, fs=float(S.sampling_rate),
                first=int(tm[0]) if len(tm) else None, last=int(tm[-1]) if len(tm) else None, tlen=int(len(tm)),
                uniform=bool(len(tm) < 2 or (np.diff(tm) == ps_of(S.sampling_interval)).all()))


def canon_axis(a):
    if a['tlen'] != a['n'] or not a['uniform']:
        return 'ok time-axis-inconsistent tlen=%d n=%d' % (a['tlen'], a['n'])
    return 'ok %s %d %d %d %s %d %d' % (a['unit'], a['t0'], a['dt'], a['n'], f2x(a['fs']), a['first'], a['last'])


def cmp_axis(impl, model):
    """exact on unit/t0/dt/n/first/last; the stored rate within 2 ulp"""
    a, b = impl.split(), model.split()
    if len(a) != 8 or len(b) != 8:
        return impl == model
    if a[:5] != b[:5] or a[6:] != b[6:]:
        return False
    x, y = x2f(a[5]), x2f(b[5])
    return abs(x - y) <= 4.5e-16 * abs(x)


def mk_input(spec):
    """spec: dict(unit, iv (float in unit) | rate (Hz), t0 (float in unit), shape, seed)"""
    rs = np.random.RandomState(spec['seed'])
    data = rs.randn(*spec['shape'])
    if spec.get('pos'):
        data = np.abs(data) + 1.0
    if spec.get('dtype'):      # a recording as stored by an acquisition system (ADC counts, single precision, big-endian)
        dt = np.dtype(spec['dtype'])
        if dt.kind in 'iu':
            data = np.clip(np.round(data * 40 + 100), 0, 250).astype(dt)
        else:
            data = data.astype(dt)
        if spec.get('ro'):
            data.flags.writeable = False
    kw = dict(t0=spec['t0'], time_unit=spec['unit'])
    if 'rate' in spec:
        kw['sampling_rate'] = spec['rate']
    else:
        kw['sampling_interval'] = spec['iv']
    return nt().TimeSeries(data, **kw)


# ------------------------------------------------------------------ analyzer outputs that are series
# event-coded series: the classic 1-d series (codes 1, 2), or one row PER CHANNEL with rows that differ in their code
# sets, counts and placements (row 0 {1,2}, row 1 {1,3}, row 2 {2,5}), or rows with negative codes
ROW_EVENTS = {'rows-diff': [{1: [3, 10, 18], 2: [6, 14, 20]}, {1: [4, 12], 3: [8, 16, 22]}, {2: [2, 9, 15, 21], 5: [5, 19]}],
              'rows-neg': [{-1: [3, 10, 18], 2: [6, 14, 20]}, {1: [4, 12], -2: [8, 16, 22]}, {-3: [2, 9, 15], -1: [5, 19]}],
              'rows-same': [{1: [3, 10, 18], 2: [6, 14, 20]}, {1: [4, 12, 21], 2: [8, 16]}, {1: [2, 9], 2: [5, 13, 19]}]}


def event_rows(n, spec, C):
    """-> (list of event rows as float arrays, is2d)"""
    mode = spec.get('ev_mode') or '1d'
    if mode == '1d' or C is None:
        ev = np.zeros(n)
        ev[[3, 10, 18]] = 1
        ev[[6, 14, 20]] = 2
        return [ev], False
    rows = []
    for r in range(C):
        ev = np.zeros(n)
        for code, pos in ROW_EVENTS[mode][r % 3].items():
            ev[pos] = code
        rows.append(ev)
    return rows, True


def events_for(T, spec):
    n = T.data.shape[-1]
    rows, is2d = event_rows(n, spec, T.data.shape[0] if T.data.ndim == 2 else None)
    ev = np.array(rows) if is2d else rows[0]
    if spec.get('ev_dtype'):
        ev = ev.astype(spec['ev_dtype'])
    return nt().TimeSeries(ev, sampling_interval=T.sampling_interval, time_unit=T.time_unit, t0=T.t0)


def mk_analyzer(name, T, spec):
    A = na()
    fs = float(T.sampling_rate)
    if name == 'FilterAnalyzer':
        return A.FilterAnalyzer(T, lb=0.0537 * fs, ub=0.3071 * fs, **filter_opts(spec))
    if name == 'MorletWaveletAnalyzer':
        return A.MorletWaveletAnalyzer(T, freqs=[0.2 * fs, 0.3 * fs])
    if name == 'EventRelatedAnalyzer':
        kw = dict(offset=spec['offset'])
        if 'cb' in spec:
            kw['correct_baseline'] = spec['cb']
        if 'zs' in spec:
            kw['zscore'] = spec['zs']
        if spec.get('ev_kind') == 'Events':     # Events input: negative offsets are admitted
            dt = ps_of(T.sampling_interval)
            tms = nt().TimeArray(np.array([6, 11, 17, 23], dtype=np.int64) * dt, time_unit='ps')
            tms.convert_unit(T.time_unit)
            E = nt().Events(tms, time_unit=T.time_unit, amp=[1.5, 2.5, 3.5, 4.5], trial=[3, 2, 1, 0]) if spec.get('ev_cols') else nt().Events(tms)
            return A.EventRelatedAnalyzer(T, E, spec['len_et'], **kw)
        return A.EventRelatedAnalyzer(T, events_for(T, spec), spec['len_et'], **kw)
    return getattr(A, name)(T)


# FilterAnalyzer design options: the historical fixed set, or NON-DEFAULT values of every option
FILTER_ALT = dict(filt_order=10, boxcar_iterations=3, gpass=2, gstop=40, iir_ftype='cheby2', fir_win='blackman')


def filter_opts(spec):
    return dict(FILTER_ALT) if spec.get('fopts') == 'alt' else dict(filt_order=8)


def get_output(name, getter, T, spec):
    an = mk_analyzer(name, T, spec)
    if name == 'SNRAnalyzer':
        return getattr(an, getter)
    o = getattr(an, getter)
    if name == 'EventRelatedAnalyzer' and getter == 'et_data':
        o = o[0][0] if isinstance(o[0], list) else o[0]
    return o


# name, getter, kind, chain(n)->[(key, nOut)], dims admitted
def same(*keys):
    return lambda n, sp: [(k, n) for k in keys]


OUTPUTS = [
    ('FilterAnalyzer', 'iir', 'same', same('FilterAnalyzer.filtfilt.0'), (1, 2)),
    ('FilterAnalyzer', 'fir', 'same', same('FilterAnalyzer.fir.0', 'FilterAnalyzer.filtfilt.0', 'FilterAnalyzer.filtfilt.0'), (1, 2)),
    ('FilterAnalyzer', 'filtered_fourier', 'same', same('FilterAnalyzer.filtered_fourier.0'), (1, 2)),
    ('FilterAnalyzer', 'filtered_boxcar', 'same', same('FilterAnalyzer.filtered_boxcar.0'), (1, 2)),
    ('NormalizationAnalyzer', 'percent_change', 'same', same('NormalizationAnalyzer.percent_change.0'), (1, 2, 3)),
    ('NormalizationAnalyzer', 'z_score', 'same', same('NormalizationAnalyzer.z_score.0'), (1, 2, 3)),
    ('HilbertAnalyzer', 'analytic', 'same', same('HilbertAnalyzer.analytic.0'), (1, 2, 3)),
    ('HilbertAnalyzer', 'amplitude', 'same', same('HilbertAnalyzer.analytic.0', 'HilbertAnalyzer.amplitude.0'), (1, 2, 3)),
    ('HilbertAnalyzer', 'phase', 'same', same('HilbertAnalyzer.analytic.0', 'HilbertAnalyzer.phase.0'), (1, 2, 3)),
    ('HilbertAnalyzer', 'real', 'same', same('HilbertAnalyzer.analytic.0', 'HilbertAnalyzer.real.0'), (1, 2, 3)),
    ('HilbertAnalyzer', 'imag', 'same', same('HilbertAnalyzer.analytic.0', 'HilbertAnalyzer.imag.0'), (1, 2, 3)),
    ('MorletWaveletAnalyzer', 'analytic', 'same', same('MorletWaveletAnalyzer.analytic.0'), (1,)),
    ('MorletWaveletAnalyzer', 'amplitude', 'same', same('MorletWaveletAnalyzer.analytic.0', 'MorletWaveletAnalyzer.amplitude.0'), (1,)),
    ('MorletWaveletAnalyzer', 'phase', 'same', same('MorletWaveletAnalyzer.analytic.0', 'MorletWaveletAnalyzer.phase.0'), (1,)),
    ('MorletWaveletAnalyzer', 'real', 'same', same('MorletWaveletAnalyzer.analytic.0', 'MorletWaveletAnalyzer.real.0'), (1,)),
    ('MorletWaveletAnalyzer', 'imag', 'same', same('MorletWaveletAnalyzer.analytic.0', 'MorletWaveletAnalyzer.imag.0'), (1,)),
    ('SNRAnalyzer', 'signal', 'same', same('signal_noise.0'), (2,)),
    ('SNRAnalyzer', 'noise', 'same', same('signal_noise.1'), (2,)),
    ('CorrelationAnalyzer', 'xcorr', 'lag', lambda n, sp: [('CorrelationAnalyzer.xcorr.0', 2 * n - 1)], (2,)),
    ('CorrelationAnalyzer', 'xcorr_norm', 'lag', lambda n, sp: [('CorrelationAnalyzer.xcorr_norm.0', 2 * n - 1)], (2,)),
    ('EventRelatedAnalyzer', 'eta', 'offset', lambda n, sp: [('EventRelatedAnalyzer.eta.0', sp['len_et'])], (1, 2)),
    ('EventRelatedAnalyzer', 'ets', 'offset', lambda n, sp: [('EventRelatedAnalyzer.ets.0', sp['len_et'])], (1, 2)),
    ('EventRelatedAnalyzer', 'et_data', 'offset', lambda n, sp: [('EventRelatedAnalyzer.et_data.0', sp['len_et'])], (1, 2)),
    ('EventRelatedAnalyzer', 'FIR', 'offset', lambda n, sp: [('EventRelatedAnalyzer.FIR.0', sp['len_et'])], (1, 2)),
    ('EventRelatedAnalyzer', 'xcorr_eta', 'lenet', lambda n, sp: [('EventRelatedAnalyzer.xcorr_eta.0', sp['len_et'] // 2)], (1, 2)),
]


def axis_line(chain, a_in, spec, tr='-'):
    return 'C15 axis %s %s %s %d %d %d %s %d %d %s' % (
        ','.join(k for k, _ in chain), ','.join(str(n) for _, n in chain), a_in['unit'], a_in['t0'], a_in['dt'], a_in['n'],
        f2x(a_in['fs']), spec.get('offset', 0), spec.get('len_et', 0), tr)


def run_output(name, getter, spec):
    """-> (impl string, input axis, output axis or None, output object or None, input object)"""
    T = mk_input(spec)
    a_in = axis_of(T)
    try:
        O = get_output(name, getter, T, spec)
        a_out = axis_of(O)
        return canon_axis(a_out), a_in, a_out, O, T
    except Exception as e:  # noqa
        return 'err ' + common.err_kind(e), a_in, None, None, T


# series lengths, STRATIFIED (the k-th input of every output takes the k-th stratum, so the quick tier meets all of
# them for every analyzer output): primes / 2*prime / large non-smooth (next_fast_len(n) far from n) / 2-3-5-smooth
# (the only kind the repo's tests and examples use) / tiny-or-odd / other non-smooth composites
LEN_PRIME = [37, 41, 43, 47, 53, 59, 61, 67, 71, 73, 79, 83, 89, 97, 101, 103, 107, 109, 113, 127]
LEN_2P = [46, 58, 62, 74, 82, 86, 94, 106, 118, 122]
LEN_BIG = [301, 999, 1021, 509, 514, 343, 667]
LEN_SMOOTH = [48, 64, 80]
LEN_TINY = [1, 2, 3, 5, 7, 9, 11, 13, 17, 19, 23]
LEN_COMP = [49, 51, 57, 63, 69, 77, 87, 91, 93, 99, 111, 119]
# smallest length an analyzer's own algorithm admits with the parameters used here (filtfilt pad length, wavelet
# support, event positions): below it the analyzer raises / is outside its documented domain
MIN_LEN = {'FilterAnalyzer': 41, 'MorletWaveletAnalyzer': 41, 'EventRelatedAnalyzer': 37, 'CorrelationAnalyzer': 2,
           'NormalizationAnalyzer': 2}


def smooth235(n):
    for p in (2, 3, 5):
        while n % p == 0:
            n //= p
    return n == 1


# lengths of the spectral / history / Fs experiments (>= 64 = the default NFFT): smooth, prime, 2*prime, 7*13, 7*11, 7*43
SPEC_LENS = [96, 97, 94, 91, 101, 77, 127, 122, 301]


def pick_len(rng, k, name, lo=None):
    lo = MIN_LEN.get(name, 1) if lo is None else lo
    strata = [LEN_PRIME, LEN_2P, LEN_BIG, LEN_SMOOTH, LEN_TINY, LEN_COMP]
    pool = [n for n in strata[k % 6] if n >= lo] or [n for n in LEN_COMP if n >= lo]
    return rng.choice(pool)


def gen_spec(rng, dims, k, name):
    """k-th input for an output: the first three are fixed hard cases (one per unit: re-quantising
    interval, non-zero t0), the rest random"""
    if k < 3:
        unit = UNITS[k]
        iv = BAD_IV[unit][0]
        t0 = T0S[k]
    else:
        unit = rng.choice(UNITS)
        c = rng.random()
        iv = rng.choice(BAD_IV[unit]) if c < 0.25 else rng.choice(GOOD_IV[unit]) if c < 0.7 else round(rng.uniform(0.01, 50.0), rng.randint(1, 4))
        t0 = rng.choice(T0S + [0.0]) if rng.random() < 0.8 else round(rng.uniform(-50, 50), 2)
    nd = dims[k % len(dims)] if k < 3 else rng.choice(dims)
    if name == 'EventRelatedAnalyzer' and 2 in dims and k % 2 == 0:
        nd = 2
    n = pick_len(rng, k, name)
    shape = {1: (n,), 2: (rng.choice([2, 3]), n), 3: (2, 2, n)}[nd]
    if name == 'EventRelatedAnalyzer' and nd == 2:
        shape = ([2, 3, 4][k % 3], n)
    spec = dict(unit=unit, iv=iv, t0=t0, shape=list(shape), seed=rng.randrange(10**6))
    if name == 'NormalizationAnalyzer':
        spec['pos'] = True
    if name == 'EventRelatedAnalyzer':
        spec['len_et'] = rng.choice([4, 5, 6])
        spec['offset'] = rng.choice([0, 1, 2, 0, 3])   # TimeSeries events admit offsets >= 0 only
    if name == 'EventRelatedAnalyzer' and k % 5 == 4:
        spec['offset'] = 0
    if name == 'EventRelatedAnalyzer':
        # rows of the event series that differ (codes / counts / placements), negative codes per row, one row broadcast to
        # all channels; baseline correction and z-score flags; recordings stored as integers / float32 / big-endian
        spec['ev_mode'] = ['rows-diff', '1d', 'rows-neg', 'rows-diff', 'rows-same', '1d'][k % 6] if nd == 2 else '1d'
        spec['cb'] = k % 2 == 1
        spec['zs'] = k % 3 == 1
        spec['dtype'] = [None, 'uint8', 'float32', 'int16', '>f8', 'uint16', '>i4', None][k % 8]
        spec['ev_dtype'] = [None, 'int16', 'float32', 'int64', 'int8'][k % 5]
        spec['ro'] = k % 4 == 3
    if name == 'FilterAnalyzer' and k % 2 == 1:
        spec['fopts'] = 'alt'
    if name != 'EventRelatedAnalyzer' and k >= 3 and k % 2 == 0:
        # recordings that are not float64 (the reference is the algorithm layer on the SAME stored samples; unsigned types are
        # left to the event-related analyzer: scipy's filtfilt itself wraps on them)
        spec['dtype'] = rng.choice(['int16', 'float32', '>f8', 'int64', '>i4', 'int32'])
        spec['ro'] = rng.random() < 0.3
    if rng.random() < 0.15 and k >= 3:
        spec.pop('iv')
        spec['rate'] = rng.choice([2.0, 10.0, 1000.0, 3.0, 1.2296039445694542, 0.5, 7.0])
    return spec


def nontrivial(a_in):
    return a_in['t0'] != 0 or a_in['unit'] != 's'


# ------------------------------------------------------------------ NIfTI
_TMP = []


def tmpdir():
    if not _TMP:
        d = tempfile.mkdtemp(prefix='evc15_nii_')
        _TMP.append(d)
        import atexit
        atexit.register(lambda: shutil.rmtree(d, ignore_errors=True))
    return _TMP[0]


# how the volumes are STORED: integer / single-precision samples as they come from a scanner; `scaled-*`: floats saved
# into an integer type, i.e. with scl_slope / scl_inter in the header (what get_fdata() has to apply)
NIFTI_DTYPES = ['int16', 'float32', 'uint8', 'scaled-int16', 'scaled-uint8', 'int16', 'float32']
_TRUTH = {}


def _nifti_key(spec, idx):
    return (spec['seed'], idx, spec['dtype'], tuple(spec['vol']), spec['lens'][idx], spec.get('ext', '.nii'))


def nifti_data(spec, idx):
    """the array that goes INTO file idx (kept from before writing: the reference that no reader state can touch); for the
    `scaled-*` kinds: stored integers x scl_slope + scl_inter, computed from the raw file content right after writing"""
    if spec['dtype'].startswith('scaled'):
        if _nifti_key(spec, idx) not in _TRUTH:
            write_nifti(spec, idx)
        return _TRUTH[_nifti_key(spec, idx)]
    rs = np.random.RandomState(spec['seed'] + idx)
    X, Y, Z = spec['vol']
    T = spec['lens'][idx]
    if spec['dtype'] == 'int16':
        return rs.randint(100, 2000, size=(X, Y, Z, T)).astype(np.int16)
    if spec['dtype'] == 'uint8':
        return rs.randint(3, 250, size=(X, Y, Z, T)).astype(np.uint8)
    return (rs.rand(X, Y, Z, T) * 1000 + 100).astype(np.float32)


def write_nifti(spec, idx):
    import nibabel as nib
    p = os.path.join(tmpdir(), 'v_%d_%d_%s%s' % (spec['seed'], idx, spec['dtype'], spec.get('ext', '.nii')))
    if spec['dtype'].startswith('scaled'):
        rs = np.random.RandomState(spec['seed'] + idx)
        X, Y, Z = spec['vol']
        img = nib.Nifti1Image(rs.rand(X, Y, Z, spec['lens'][idx]) * 1000 + 100, np.eye(4))
        img.set_data_dtype(np.dtype(spec['dtype'].split('-')[1]))
        img.header.set_zooms((1, 1, 1, 2.0))
        nib.save(img, p)
        if _nifti_key(spec, idx) not in _TRUTH:
            im2 = nib.load(p)
            slope, inter = im2.dataobj.slope, im2.dataobj.inter      # (the header's own fields are reset on load)
            raw = np.asarray(im2.dataobj.get_unscaled())
            _TRUTH[_nifti_key(spec, idx)] = raw.astype(np.float64) * (1.0 if slope is None else float(slope)) + (0.0 if inter is None else float(inter))
        return p
    data = nifti_data(spec, idx)
    img = nib.Nifti1Image(data, np.eye(4))
    img.header.set_zooms((1, 1, 1, 2.0))
    nib.save(img, p)
    return p


# reader options, cycled (21 entries, odd: over the cases every option meets single and multiple files, every ROI
# form): both normalisations x average x ALL FOUR filter methods, and the two refusals.  (boxcar removes the mean, so
# 'percent' — a division by the mean — is combined with the mean-preserving filters only.)
READER_OPTS = ['plain', 'percent', 'zscore', 'filter-fourier', 'filter-boxcar', 'filter-fir', 'filter-iir', 'percent+average',
               'filter-fir+percent', 'filter-iir+zscore', 'zscore+average', 'average',       # 10, 11: whole volumes (coords=None)
               'filter-boxcar+zscore+average', 'filter-fourier+percent+average', 'filter-fir+average',
               'filter-iir+percent+average', 'bad-normalize', 'bad-filter', 'plain', 'filter-fourier+zscore',
               'filter-boxcar+average']
assert len(READER_OPTS) == 21


def opt_filter(o):
    """filter method named in an option string (None when there is none)"""
    for t in o.split('+'):
        if t.startswith('filter-'):
            return t[len('filter-'):]
    return 'bogus' if o == 'bad-filter' else None


def opt_normalize(o):
    return 'percent' if 'percent' in o else 'zscore' if 'zscore' in o else 'bogus' if o == 'bad-normalize' else None


def filter_dict(spec):
    m = opt_filter(spec['opt'])
    if m is None:
        return None
    fs = 10.0**12 / tr_ps(spec['tr'])
    return dict(lb=0.0537 * fs, ub=0.3071 * fs, method=m, filt_order=8)


def gen_nifti_spec(rng, k):
    nf = 1 if k % 2 == 0 else rng.choice([2, 3])
    vol = [rng.choice([2, 3]), rng.choice([3, 4]), rng.choice([2, 3])]
    opt = READER_OPTS[k % len(READER_OPTS)]
    if 'filter' in opt:
        lens = [rng.choice([41, 43, 46, 48, 47]) for _ in range(nf)]                 # the filters' own minimum length
    else:
        lens = [rng.choice([20, 24, 30, 23, 29, 31, 22, 26, 21]) for _ in range(nf)]     # smooth / prime / 2*prime / 3*7
    # ROI sizes 1,2,3,4 EXPLICITLY (a 3-voxel ROI is a 3x3 coords array) for single and multiple files and for
    # ROI lists: k even/odd = single/multi file, k//2 cycles the size (period 4) and the ROI count (period 6)
    nroi = [1, 1, 2, 1, 3, 0][(k // 2) % 6]      # 0: coords=None, 1: one array, >1: list of arrays
    if nroi == 0 and 'filter' in opt:
        nroi = 1                                 # the filters admit at most 2-d data: whole volumes are outside this property
    sizes = [[1, 2, 3, 4][(k // 2 + r) % 4] for r in range(max(nroi, 1))]
    if nroi >= 2:
        sizes[1] = 3
    coords = []
    for kk in sizes:
        while True:
            c = [[rng.randrange(vol[d]) for _ in range(kk)] for d in range(3)]
            if kk != 3 or c != [list(r) for r in zip(*c)]:      # a 3x3 coordinate matrix must not be symmetric
                break
        coords.append(c)
    tr = rng.choice([None, 2.0, 1.5, 0.5, 0.81327, 'T:2000000000000:ms', 'T:1500000000000:us', 2])
    return dict(seed=rng.randrange(10**6), vol=vol, lens=lens, nroi=nroi, coords=coords, tr=tr, opt=opt,
                dtype=NIFTI_DTYPES[k % len(NIFTI_DTYPES)], as_list=(nf > 1) or rng.random() < 0.2,
                roi_tuple=rng.random() < 0.3, verbose=(k % 5 == 3))


def tr_obj(tr):
    if isinstance(tr, str):
        _, ps, u = tr.split(':')
        t = nt().TimeArray(np.int64(ps), time_unit='ps')
        t.convert_unit(u)
        return t
    return tr


def tr_ps(tr):
    if tr is None:
        return 10**12
    if isinstance(tr, str):
        return int(tr.split(':')[1])
    x = Fr(tr) * 10**12
    return int(x + Fr(1, 2)) if x.denominator != 1 else int(x)     # nearest ps (ties do not occur in the pool)


_LAST = {'said': None}


def read_nifti(spec):
    """run the real reader; returns (result, files)"""
    from nitime.fmri import io
    files = [write_nifti(spec, i) for i in range(len(spec['lens']))]
    arg = files if spec['as_list'] else files[0]
    if spec['nroi'] == 0:
        coords = None
    elif spec['nroi'] == 1:
        coords = np.array(spec['coords'][0])
    else:
        coords = [np.array(c) for c in spec['coords']]
        if spec['roi_tuple']:
            coords = tuple(coords)
    kw = {}
    o = spec['opt']
    if opt_normalize(o) is not None:
        kw['normalize'] = opt_normalize(o)
    if 'average' in o:
        kw['average'] = True
    if opt_filter(o) is not None:
        kw['filter'] = filter_dict(spec)
    if spec['tr'] is not None:
        kw['TR'] = tr_obj(spec['tr'])
    if spec.get('verbose'):
        import io as _io, contextlib
        buf = _io.StringIO()
        with contextlib.redirect_stdout(buf):
            R = io.time_series_from_file(arg, coords, verbose=True, **kw)
        _LAST['said'] = buf.getvalue().count('Reading')
        return R, files
    return io.time_series_from_file(arg, coords, **kw), files


def expected_file_data(spec, files):
    """plain-loop reference: per ROI, rows of voxel time courses, runs appended in time, options applied per run"""
    import nibabel as nib
    vols = [nib.load(f).get_fdata() for f in files]
    rois = spec['coords'] if spec['nroi'] > 0 else [None]
    out = []
    for c in rois:
        runs = []
        for v in vols:
            if c is None:
                d = np.array(v, dtype=float)
            else:
                d = np.array([[v[c[0][i], c[1][i], c[2][i], t] for t in range(v.shape[3])] for i in range(len(c[0]))], dtype=float)
            o = spec['opt']
            if opt_filter(o) is not None:
                # the documented meaning: FilterAnalyzer on the raw voxel series (interval = TR) with the reader's
                # keyword defaults, the output named by `method` (the analyzer itself is judged against scipy above)
                fd = filter_dict(spec)
                T = nt().TimeSeries(d, sampling_interval=tr_obj(spec['tr']) if spec['tr'] is not None else 1.0)
                F = na().FilterAnalyzer(T, lb=fd['lb'], ub=fd['ub'], boxcar_iterations=2, filt_order=fd['filt_order'], gpass=1, gstop=60,
                                        iir_ftype='ellip', fir_win='hamming')
                d = np.asarray({'boxcar': lambda: F.filtered_boxcar, 'fourier': lambda: F.filtered_fourier, 'fir': lambda: F.fir,
                                'iir': lambda: F.iir}[fd['method']]().data, dtype=float)
            if 'percent' in o:
                m = d.mean(-1)[..., None]
                d = (d / m - 1) * 100
            if 'zscore' in o:
                d = (d - d.mean(-1)[..., None]) / d.std(-1)[..., None]
            if 'average' in o:
                d = d.reshape(-1, d.shape[-1]).mean(0)
            runs.append(d)
        out.append(np.concatenate(runs, -1))
    return out


# ------------------------------------------------------------------ HISTORIES of reads on the same files
# read -> modify the returned series IN PLACE -> read again (same file, other coordinates / options, multi-file):
# every read must still be the voxel data on disk, no two results may share memory, and a live result may change
# only through its own modification.
MUTS = ['fill', 'demean', 'scale', 'negate']


def mutate(arr, how):
    """in-place modification of an ndarray (what callers do with the series they were handed)"""
    if how == 'fill':
        arr[...] = -1.0
    elif how == 'demean':
        arr -= arr.mean(-1)[..., np.newaxis]
    elif how == 'scale':
        arr *= 2.0
    else:
        np.negative(arr, out=arr)


def rd(files, single=False, coords=None, opt='plain'):
    return dict(op='read', files=files, single=single, coords=coords, opt=opt)


def gen_coords(rng, vol, kk):
    while True:
        c = [[rng.randrange(vol[d]) for _ in range(kk)] for d in range(3)]
        if kk != 3 or c != [list(r) for r in zip(*c)]:
            return c


def gen_readseq_spec(rng, k, options=False):
    vol = [rng.choice([1, 2]), rng.choice([2, 3]), rng.choice([2, 3])]
    lens = [rng.choice([5, 7, 11, 6, 13, 8]) for _ in range(3)]
    C = lambda: gen_coords(rng, vol, rng.choice([1, 2, 3, 4]))      # noqa
    m = lambda r: dict(op='mut', r=r, how=rng.choice(MUTS))           # noqa
    f0, f1 = rng.sample([0, 1, 2], 2)
    pat = k % 6
    if pat == 0:      # whole volume -> modify -> ROI / whole / concatenations of the same file
        ops = [rd([f0], True), m(0), rd([f0], True, C()), rd([f0], True), rd([f0, f1], False, C()), rd([f1, f0], False)]
    elif pat == 1:    # two live whole-volume series of one file; modify one
        ops = [rd([f0], True), rd([f0], True), m(0), rd([f0], True), m(1), rd([f0], True, C())]
    elif pat == 2:    # ROI read -> modify -> other ROI, whole
        ops = [rd([f0], True, C()), m(0), rd([f0], True, C()), rd([f0], True), m(2), rd([f0], True, C())]
    elif pat == 3:    # concatenated whole volumes -> modify -> single reads of the member files
        ops = [rd([f0, f1], False), m(0), rd([f1], True), rd([f0], True, C()), m(1), rd([f0, f1], False, C()), rd([f1], True)]
    elif pat == 4:    # a list of ONE file (concatenate path) and the string form, interleaved
        ops = [rd([f0], False), m(0), rd([f0], True), m(1), rd([f0], False, C()), rd([f0], False)]
    else:             # random history
        ops, nres = [], 0
        for _ in range(rng.randint(4, 8)):
            if nres and rng.random() < 0.4:
                ops.append(m(rng.randrange(nres)))
            else:
                fs = [rng.choice([f0, f1])] if rng.random() < 0.6 else rng.sample([0, 1, 2], rng.choice([2, 3]))
                ops.append(rd(fs, len(fs) == 1 and rng.random() < 0.7, C() if rng.random() < 0.5 else None))
                nres += 1
        ops.append(rd([f0], True, C()))
    if options:       # later reads with normalisation / averaging / ROI lists (judged by the oracle only)
        for o in ops[2:]:
            if o['op'] == 'read' and rng.random() < 0.6:
                o['opt'] = rng.choice(['percent', 'zscore', 'average', 'zscore+average', 'roilist'])
                if o['opt'] == 'roilist':
                    o['coords'] = [C(), C()]
                elif o['coords'] is None and rng.random() < 0.5:
                    o['coords'] = C()
    return dict(seed=rng.randrange(10**6), vol=vol, lens=lens, dtype=NIFTI_DTYPES[(k // 6 + k) % len(NIFTI_DTYPES)], ops=ops,
                tr=rng.choice([None, 2.0, 1.5, 0.81327, 'T:2000000000000:ms']), ext=rng.choice(['.nii', '.nii', '.nii.gz']))


def run_readseq(spec, each=None):
    """run the history on the real reader. -> list of (op, results-so-far) snapshots through `each(i, op, new, results)`;
    returns the list of result series"""
    from nitime.fmri import io
    files = [write_nifti(spec, i) for i in range(len(spec['lens']))]
    results = []
    for i, o in enumerate(spec['ops']):
        new = []
        if o['op'] == 'mut':
            mutate(results[o['r']].data, o['how'])
        else:
            arg = files[o['files'][0]] if o['single'] else [files[f] for f in o['files']]
            kw = {}
            if 'percent' in o['opt']:
                kw['normalize'] = 'percent'
            if 'zscore' in o['opt']:
                kw['normalize'] = 'zscore'
            if 'average' in o['opt']:
                kw['average'] = True
            if spec['tr'] is not None:
                kw['TR'] = tr_obj(spec['tr'])
            c = o['coords']
            coords = None if c is None else [np.array(x) for x in c] if o['opt'] == 'roilist' else np.array(c)
            R = io.time_series_from_file(arg, coords, **kw)
            new = list(R) if isinstance(R, (list, tuple)) else [R]
            results += new
        if each is not None:
            each(i, o, new, results)
    return results


def rows_of(a):
    a = np.asarray(a, dtype=float)
    return a.reshape(-1, a.shape[-1]) if a.ndim else a.reshape(1, 1)


def buf_tok(a):
    r = rows_of(a)
    return '%dx%d:%s' % (r.shape[0], r.shape[1], '.'.join(f2x(x) for x in r.reshape(-1)) if r.size else '-')


def readseq_case(spec):
    """correspondence: the history through the Lean heap model (`Reader.report`) vs the real reader — per read the
    data and the earlier results it shares memory with, at the end the data of every series handed out"""
    X, Y, Z = spec['vol']
    toks = []
    for i in range(len(spec['lens'])):
        toks += [f2x(float(v)) for v in nifti_data(spec, i).reshape(-1)]
    ops_m, out = [], []

    def each(i, o, new, results):
        if o['op'] == 'mut':
            r = rows_of(results[o['r']].data)
            ops_m.append('w:%d:%d:%s' % (o['r'], r.shape[1], '.'.join(f2x(x) for x in r.reshape(-1))))
            out.append('w')
        else:
            c = o['coords']
            ops_m.append('r:%s:%s:%s' % ('+'.join(map(str, o['files'])), 's' if o['single'] else 'l',
                                         '-' if c is None else '/'.join('.'.join(map(str, x)) for x in c)))
            k = len(results) - 1
            al = [j for j in range(k) if np.shares_memory(results[j].data, results[k].data)]
            out.append(buf_tok(results[k].data) + ':' + ('.'.join(map(str, al)) if al else '-'))
    try:
        results = run_readseq(spec, each)
        impl = 'ok ' + ' '.join(out) + ' | ' + ' '.join(buf_tok(r.data) for r in results)
    except Exception as e:  # noqa
        impl = 'err ' + common.err_kind(e)
        ops_m = ops_m or ['r:0:s:-']
    line = 'C15 readseq %d %d %d %s %s %s' % (Y, Z, X * Y * Z, ','.join(map(str, spec['lens'])), '.'.join(toks), ';'.join(ops_m))
    return Case(line, impl, 'time_series_from_file/history', meta={'op': 'readseq', 'spec': spec}, nontrivial=True)


def read_kind(o):
    k = ('roilist' if o['opt'] == 'roilist' else 'whole' if o['coords'] is None else 'coords') + ('-single' if o['single'] else '-multi')
    return k + ('' if o['opt'] in ('plain', 'roilist') else '/' + o['opt'])


def judge_readseq_spec(spec, case=None):
    """the property on a history, by independent means: the arrays kept from BEFORE the files were written (never
    touched by any reader state), plain indexing, np.concatenate; a private copy of every result follows the
    caller's modifications"""
    truths = [nifti_data(spec, i).astype(np.float64) for i in range(len(spec['lens']))]
    fails, mirror, seen = [], [], set()
    meta = {'op': 'readseq', 'spec': spec}

    def fail(key, what):
        if key not in seen:
            seen.add(key)
            fails.append(Failure('time_series_from_file/history/' + key, 'history of reads on the same files, %s [vol=%s lens=%s dtype=%s ops=%s]' % (
                what, spec['vol'], spec['lens'], spec['dtype'],
                ' ; '.join(('mut(result %d, %s)' % (o['r'], o['how'])) if o['op'] == 'mut' else read_kind(o) + str(o['files']) for o in spec['ops'])),
                {'meta': meta}, case=case))

    def want_of(o, c):
        runs = []
        for f in o['files']:
            v = truths[f]
            d = np.array(v) if c is None else np.array([[v[c[0][i], c[1][i], c[2][i], t] for t in range(v.shape[3])] for i in range(len(c[0]))])
            if 'percent' in o['opt']:
                d = (d / d.mean(-1)[..., None] - 1) * 100
            if 'zscore' in o['opt']:
                d = (d - d.mean(-1)[..., None]) / d.std(-1)[..., None]
            if 'average' in o['opt']:
                d = d.reshape(-1, d.shape[-1]).mean(0)
            runs.append(d)
        return np.concatenate(runs, -1)

    def each(i, o, new, results):
        if o['op'] == 'mut':
            mutate(mirror[o['r']], o['how'])
        else:
            kind = read_kind(o)
            cs = o['coords'] if o['opt'] == 'roilist' else [o['coords']]
            if len(new) != len(cs):
                fail(kind + '/rois', 'step %d returned %d series for %d ROIs' % (i, len(new), len(cs)))
            for S, c in zip(new, cs):
                want = want_of(o, c)
                got = np.asarray(S.data, dtype=float)
                exact = o['opt'] in ('plain', 'roilist')
                if got.shape != want.shape or not ((got == want).all() if exact else close(got, want, 1e-9)):
                    dev = float(np.max(np.abs(got - want))) if got.shape == want.shape else float('nan')
                    fail(kind + '/data', 'step %d (%s of files %s) does not return the voxel data on disk (max abs deviation %g) after the earlier steps' % (
                        i, kind, o['files'], dev))
                a = axis_of(S)
                if a['dt'] != tr_ps(spec['tr']) or a['n'] != want.shape[-1] or a['t0'] != 0:
                    fail(kind + '/axis', 'step %d: interval %d ps (TR %d ps), n=%d (expected %d), t0=%d' % (i, a['dt'], tr_ps(spec['tr']), a['n'], want.shape[-1], a['t0']))
                k = len(mirror)
                for j in range(k):
                    if np.shares_memory(results[j].data, S.data):
                        fail(kind + '/shares-memory', 'step %d: the returned series shares memory with the series returned by read #%d' % (i, j))
                mirror.append(np.array(want, copy=True))
        # every series handed out so far changes only through its own modifications
        for j, (S, w) in enumerate(zip(results, mirror)):
            got = np.asarray(S.data, dtype=float)
            if got.shape != w.shape or not close(got, w, 1e-9):
                fail('live-result-changed', 'after step %d the series returned by read #%d no longer holds what it was given plus its own modifications' % (i, j))
                mirror[j] = np.array(got, copy=True) if got.shape == w.shape else w
    try:
        run_readseq(spec, each)
    except Exception as e:  # noqa
        fail('raises', 'raised %r' % e)
    return fails


def judge_readseq(c):
    return judge_readseq_spec(c.meta['spec'], case=c)


# ------------------------------------------------------------------ HISTORIES of reader calls with different OPTIONS
# Two (or more) calls of time_series_from_file in one process: calls with NON-DEFAULT values of every option (all design
# options of the filter dict, another method, another band, normalize / average / TR in another form) come BEFORE the
# judged call, which gives only `method` (and mostly the band).  Every call's FilterAnalyzer must get the documented
# defaults overridden by THAT call's dict only, and its data must be the FilterAnalyzer output for exactly those options.
DOC_DEFAULTS = [('lb', 0), ('ub', None), ('boxcar_iterations', 2), ('filt_order', 64), ('gpass', 1), ('gstop', 60), ('iir_ftype', 'ellip'),
                ('fir_win', 'hamming')]
OPT_ALTS = [dict(filt_order=16, boxcar_iterations=3, gpass=2, gstop=40, iir_ftype='cheby2', fir_win='blackman'),
            dict(filt_order=10, boxcar_iterations=1, gpass=0.5, gstop=50, iir_ftype='butter', fir_win='hann'),
            dict(filt_order=24, gstop=45), dict(boxcar_iterations=4, fir_win='bartlett', iir_ftype='cheby1', gpass=3)]
METHODS = ['fir', 'fourier', 'boxcar', 'iir']
OUT_OF = {'boxcar': 'filtered_boxcar', 'fourier': 'filtered_fourier', 'fir': 'fir', 'iir': 'iir'}


def tok(v):
    if v is None:
        return 'None'
    if isinstance(v, str):
        return "'%s'" % v
    if isinstance(v, (int, np.integer)) and not isinstance(v, bool):
        return str(int(v))
    return f2x(float(v))


def gen_optseq_spec(rng, k):
    m = METHODS[k % 4]
    tr = [None, 2.0, 0.5, 'T:1500000000000:ms', 1.5][k % 5]
    vol = [1, 2, 2]
    n = 204 + rng.choice([0, 3, 7])        # the default filt_order=64 needs > 3*65 samples (and a steep iir design nearly as many)
    calls = []
    # perturbation: another method, EVERY design option at a non-default value, another band, other normalize/average/TR
    for j in range(1 + k % 2):
        pm = METHODS[(k + 1 + j + k // 4) % 4]
        ptr = [1.0, 'T:3000000000000:ms', 2, None, 0.81327][(k + j) % 5]
        fsp = 10.0**12 / tr_ps(ptr)
        f = dict(method=pm, lb=0.11 * fsp, ub=0.23 * fsp)
        f.update(OPT_ALTS[(k + j) % 2] if j == 0 else OPT_ALTS[2 + (k + j) % 2])
        calls.append(dict(filter=f, normalize=[None, 'zscore', 'percent'][(k + j) % 3] if pm != 'boxcar' else 'zscore', average=(k + j) % 2 == 0, tr=ptr,
                          coords=gen_coords(rng, vol, rng.choice([1, 2, 3]))))
    fs = 10.0**12 / tr_ps(tr)
    f = dict(method=m)
    if not ((k // 4) % 2 == 1 and m in ('fir', 'fourier')):     # lb / ub themselves left at their defaults (0, None)
        f.update(lb=0.0537 * fs, ub=0.3071 * fs)
    calls.append(dict(filter=f, normalize=None, average=False, tr=tr, coords=gen_coords(rng, vol, rng.choice([1, 2, 4])), judged=True))
    # and once more the other way round: a call with a FEW options, then another default call of another method
    m2 = METHODS[(k + 2) % 4]
    f2 = dict(method=m2, lb=0.07 * fs, ub=0.29 * fs)
    if m2 == 'fir':
        f2['filt_order'] = 12
    calls.append(dict(filter=f2, normalize='zscore' if k % 2 else None, average=False, tr=tr, coords=gen_coords(rng, vol, 2), judged=True))
    return dict(seed=rng.randrange(10**6), vol=vol, lens=[n], dtype=NIFTI_DTYPES[k % len(NIFTI_DTYPES)], calls=calls)


def run_optseq(spec):
    """the history on the real reader with FilterAnalyzer's constructor observed; -> per call (kwargs seen or None, result or exception)"""
    from nitime.fmri import io
    f0 = write_nifti(spec, 0)
    orig = io.tsa.FilterAnalyzer
    seen = []

    class Spy(orig):
        def __init__(self, *a, **k):
            seen.append(dict(k))
            orig.__init__(self, *a, **k)
    out = []
    io.tsa.FilterAnalyzer = Spy
    try:
        for c in spec['calls']:
            del seen[:]
            kw = dict(filter=dict(c['filter']))
            if c['normalize'] is not None:
                kw['normalize'] = c['normalize']
            if c['average']:
                kw['average'] = True
            if c['tr'] is not None:
                kw['TR'] = tr_obj(c['tr'])
            try:
                R = io.time_series_from_file(f0, np.array(c['coords']), **kw)
            except Exception as e:  # noqa
                R = e
            out.append((dict(seen[0]) if seen else None, R))
    finally:
        io.tsa.FilterAnalyzer = orig
    return out


def optseq_case(spec):
    res = run_optseq(spec)
    parts = []
    for kw, R in res:
        if kw is None:
            parts.append('none' if not isinstance(R, Exception) else 'err ' + common.err_kind(R))
        else:
            parts.append(','.join('%s=%s' % (k, tok(kw[k])) if k in kw else '%s=MISSING' % k for k, _ in DOC_DEFAULTS))
    impl = 'ok ' + ' ; '.join(parts)
    line = 'C15 readerhist ' + ';'.join(','.join('%s=%s' % (k, tok(v)) for k, v in c['filter'].items()) for c in spec['calls'])
    return Case(line, impl, 'time_series_from_file/option-history', meta={'op': 'optseq', 'spec': spec}, nontrivial=True)


def judge_optseq(c):
    spec = c.meta['spec']
    fails, seen = [], set()
    truth = nifti_data(spec, 0).astype(np.float64)

    def fail(key, what):
        if key not in seen:
            seen.add(key)
            fails.append(Failure('time_series_from_file/option-history/' + key, 'history of reader calls with different options: %s [calls: %s]' % (
                what, ' ; '.join('%s%s%s TR=%r' % (cc['filter'], ' normalize=%s' % cc['normalize'] if cc['normalize'] else '', ' average' if cc['average'] else '', cc['tr'])
                                 for cc in spec['calls'])), {'meta': c.meta}, case=c if c.line else None))
    res = run_optseq(spec)
    for i, (cc, (kw, R)) in enumerate(zip(spec['calls'], res)):
        m = cc['filter']['method']
        want_kw = {k: cc['filter'].get(k, d) for k, d in DOC_DEFAULTS}
        pos = 'call %d of %d (method %s%s)' % (i + 1, len(spec['calls']), m, ', options given: ' + ','.join(sorted(k for k in cc['filter'] if k != 'method')))
        if isinstance(R, Exception):
            fail(m + '/raises', '%s raised %r' % (pos, R))
            continue
        if kw is None or any(k not in kw or kw[k] != want_kw[k] for k in want_kw):
            bad = {k: (None if kw is None else kw.get(k, 'MISSING')) for k in want_kw if kw is None or kw.get(k, 'MISSING') != want_kw[k]}
            fail(m + '/kwargs', '%s handed FilterAnalyzer %s; expected the documented defaults overridden by this call\'s dict only: %s' % (
                pos, bad, {k: want_kw[k] for k in bad}))
        co = cc['coords']
        d = np.array([[truth[co[0][q], co[1][q], co[2][q], t] for t in range(truth.shape[3])] for q in range(len(co[0]))])
        T = nt().TimeSeries(d, sampling_interval=tr_obj(cc['tr']) if cc['tr'] is not None else 1.0)
        F = na().FilterAnalyzer(T, **want_kw)
        d = np.asarray(getattr(F, OUT_OF[m]).data, dtype=float)
        if cc['normalize'] == 'percent':
            d = (d / d.mean(-1)[..., None] - 1) * 100
        if cc['normalize'] == 'zscore':
            d = (d - d.mean(-1)[..., None]) / d.std(-1)[..., None]
        if cc['average']:
            d = d.reshape(-1, d.shape[-1]).mean(0)
        got = np.asarray(R.data, dtype=float)
        if got.shape != d.shape or not close(got, d, 1e-9):
            fail(m + '/data', '%s does not return the voxel series filtered with the documented defaults overridden by this call\'s dict only '
                 '(max abs deviation %g)' % (pos, float(np.max(np.abs(got - d))) if got.shape == d.shape else float('nan')))
        a = axis_of(R)
        if a['dt'] != tr_ps(cc['tr']) or a['t0'] != 0 or a['n'] != truth.shape[3]:
            fail(m + '/axis', '%s: interval %d ps for TR %d ps, n=%d, t0=%d' % (pos, a['dt'], tr_ps(cc['tr']), a['n'], a['t0']))
    return fails


# ------------------------------------------------------------------ the event-related analyzer's DATA through the C19 model
def era_specs(rng, tier):
    """multi-row event series (rows that differ in code sets / counts / placements; one event row broadcast to many data
    rows; negative codes per row), recordings and event series in other dtypes, optional arguments in their other forms;
    Events objects with data columns"""
    import c19
    out = [sp for sp in c19.fixed_specs() if sp.get('rowcodes') or (sp.get('dtype') and sp['kind'] == 'series' and sp.get('planted'))]
    for i in range({'quick': 8, 'thorough': 80}[tier]):
        for what in ('fir', 'eta', 'ets', 'etdata'):
            sp = c19.gen_series(rng, tier, what, rowcodes=(i % 4 != 3), nch=[2, 3, 2, 3][i % 4], positive=(what == 'fir' or i % 2 == 0),
                                nonneg=(i % 4 == 1))
            if i % 4 == 1 and what in ('eta', 'ets'):
                sp['cb'] = True
            if i % 2 == 1:
                sp = c19.gen_typed(rng, sp, i // 2)
            out.append(sp)
        for what in ('eta', 'ets'):
            sp = c19.gen_events(rng, tier, what, nonneg=(i % 2 == 1))
            sp['cb'] = i % 2 == 1
            out.append(c19.gen_typed(rng, sp, i))
    return out


def era_case(sp):
    import c19
    c = c19.mk_case(sp)
    return Case('C15 era ' + c.line[len('C19 '):], c.impl, 'EventRelatedAnalyzer/data/' + sp['what'], cmp=c.cmp, meta={'op': 'era', 'spec': sp}, nontrivial=True)


def judge_era(c):
    """the C19 oracle's independent means (planted truth / direct computation from the stored values, per row with the
    row's own codes) on the real analyzer; C19's recorded sign convention of FIR for negative codes is not C15's business"""
    import c19
    sp = dict(c.meta['spec'])
    c2 = c19.mk_case(sp)
    f = c19.check_case(c2)
    if f is None or f.key.startswith('fir/negative-code'):
        return []
    return [Failure('EventRelatedAnalyzer/' + f.key, f.what, {'meta': c.meta}, case=c if c.line else None)]


# ------------------------------------------------------------------ cases
def cases(rng, tier, seed):
    mult = {'quick': 1, 'thorough': 12}[tier]
    out = []
    TS = nt()
    # --- the constructor: interval as number / time object, rate
    for i in range(60 * mult):
        unit = rng.choice(UNITS + ['ns', 'ps'] if i % 7 == 0 else UNITS)
        pool = BAD_IV.get(unit, [0.81327]) + GOOD_IV.get(unit, [1000.0])
        iv = rng.choice(pool) if rng.random() < 0.6 else round(rng.uniform(0.01, 500.0), rng.randint(0, 5))
        if unit == 'ps':
            iv = float(rng.randint(10**6, 10**12))
        n = rng.randint(2, 40)
        t0 = rng.choice(T0S)
        T = TS.TimeSeries(np.zeros(n), sampling_interval=iv, t0=t0, time_unit=unit)
        a = axis_of(T)
        out.append(Case('C15 mk %s %s %d %d' % (unit, f2x(iv), a['t0'], n), canon_axis(a), 'ctor/interval-number', cmp=cmp_axis,
                        meta={'op': 'mk', 'unit': unit, 'iv': iv, 't0': t0, 'n': n}))
        # re-wrap the interval as a time object (what the analyzers forward)
        U = TS.TimeSeries(np.zeros(n), sampling_interval=T.sampling_interval, t0=T.t0, time_unit=unit)
        au = axis_of(U)
        out.append(Case('C15 mk %s T:%d:%s %d %d' % (unit, a['dt'], unit, a['t0'], n), canon_axis(au), 'ctor/interval-time',
                        cmp=cmp_axis, meta={'op': 'mkT', 'unit': unit, 'dt': a['dt'], 't0ps': a['t0'], 'n': n}))
        out.append(Case('C15 rate %s %d' % (unit, a['dt']), 'ok %s %s' % (f2x(au['fs']), Fr(10**12, a['dt'])), 'ctor/rate-of-interval',
                        cmp=lambda i_, m_: i_.split()[2] == m_.split()[2] and abs(x2f(i_.split()[1]) - x2f(m_.split()[1])) <= 4.5e-16 * abs(x2f(i_.split()[1])),
                        meta={'op': 'rate', 'unit': unit, 'dt': a['dt']}))
        r = rng.choice([a['fs'], float(rng.choice([2, 10, 1000, 3, 7])), round(rng.uniform(0.1, 2000), 3)])
        V = TS.TimeSeries(np.zeros(n), sampling_rate=r, time_unit=unit)
        out.append(Case('C15 mkrate %s %s %d' % (unit, f2x(r), n), canon_axis(axis_of(V)), 'ctor/rate', cmp=cmp_axis,
                        meta={'op': 'mkrate', 'unit': unit, 'rate': r, 'n': n}))
    # --- long intervals, 2^40 .. 2^50 ps (18 min): the rate -> interval round trip, proved for all of them in ps..s
    # (`rate_roundtrip50`); the rate is forwarded as the Frequency object, as the analyzers do
    for i in range(30 * mult):
        unit = UNITS[i % 3] if i % 5 else ['ns', 'ps'][i // 5 % 2]
        dt = int(2.0 ** (rng.uniform(40, 50) if i % 3 else rng.uniform(49.9, 50.0)))
        dt = min(dt, 2**50 - 1) | (i & 1)
        out.append(rt_case(unit, dt))
    # --- analyzer outputs
    per = {'quick': 5, 'thorough': 40}[tier]
    for name, getter, kind, chain_fn, dims in OUTPUTS:
        for k in range(per):
            spec = gen_spec(rng, dims, k, name)
            if getter in ('eta', 'ets') and (k == 2 or (k >= 3 and rng.random() < 0.4)):
                spec.update(ev_kind='Events', ev_cols=(k % 2 == 0), offset=-2 if k == 2 else rng.choice([-3, -2, -1, 0, 1]),
                            iv=GOOD_IV[spec['unit']][k % 3])
                spec.pop('rate', None)
            if getter == 'xcorr_eta':      # the only (offset, len_et) its index arithmetic admits (C19's clause)
                spec['offset'], spec['len_et'] = 0, 6
                spec['zs'] = False         # (zscore=True: freq_domain_xcorr_zscored returns 5 lags for the 3 the container holds -- observed, see notes)
            impl, a_in, a_out, O, T = run_output(name, getter, spec)
            chain = chain_fn(a_in['n'], spec)
            out.append(Case(axis_line(chain, a_in, spec), impl, '%s/%s' % (name, getter), cmp=cmp_axis,
                            meta={'op': 'output', 'name': name, 'getter': getter, 'kind': kind, 'spec': spec},
                            nontrivial=nontrivial(a_in)))
    # --- the sampling rate handed to the algorithm layer, per generated Fs site
    for j in range({'quick': 3, 'thorough': 12}[tier]):
        for name, getter in FS_SITES:
            unit = UNITS[(j + FS_SITES.index((name, getter))) % 3]
            sp = dict(unit=unit, iv=(BAD_IV[unit] + GOOD_IV[unit])[j % 4], t0=T0S[j % len(T0S)], seed=rng.randrange(10**6),
                      n=SPEC_LENS[(j + FS_SITES.index((name, getter))) % len(SPEC_LENS)])
            out.append(fs_case(name, getter, sp))
            if (name, getter) in OVERRIDABLE:
                out.append(fs_case(name, getter, sp, user_fs=rng.choice([123.0, 7.5, 1000.0])))
    # --- concatenate_time_series
    for i in range(20 * mult):
        k = rng.randint(1, 4)
        C = rng.choice([1, 2, 3])
        unit = rng.choice(UNITS)
        iv = rng.choice(BAD_IV[unit] + GOOD_IV[unit])
        specs = [dict(unit=unit if rng.random() < 0.8 else rng.choice(UNITS), iv=iv, t0=rng.choice(T0S + [0.0]), shape=[C, rng.choice([1, 2, 3, 4, 5, 6, 7, 11, 13, 14, 17]) if i % 3 else rng.randint(1, 6)],
                      seed=rng.randrange(10**6)) for _ in range(k)]
        out.append(concat_case(specs))
    # --- file reading
    for i in range({'quick': 24, 'thorough': 200}[tier]):
        spec = gen_nifti_spec(rng, i)
        out += nifti_cases(spec)
    # --- histories of reads / in-place modifications on the same files
    for i in range({'quick': 12, 'thorough': 120}[tier]):
        out.append(readseq_case(gen_readseq_spec(rng, i)))
    # --- histories of reader calls with different options (defaults of every call = the documented ones)
    for i in range({'quick': 8, 'thorough': 64}[tier]):
        out.append(optseq_case(gen_optseq_spec(rng, i + seed)))
    # --- the event-related analyzer's data: rows that differ, dtypes, argument forms (through the C19 model)
    for sp in era_specs(rng, tier):
        out.append(era_case(sp))
    # --- round 2: failure histories on one GrangerAnalyzer (object model), seeds that are views of the target
    import c15_r2
    out += c15_r2.r2_cases(rng, tier, seed)
    # --- round 4: which bins the fourier filter's closed band keeps, edges ON the grid (model op `band`, when the model has it)
    import c15_r4
    out += c15_r4.r4_cases(rng, tier, seed)
    # --- round 5: runs of MIXED dtypes (int16 / int32 / uint8 / float32 / float64, both orders) through the existing `concat` model op
    import c15_r5
    out += c15_r5.r5_cases(rng, tier, seed)
    return out


def rt_pair(unit, dt):
    TS = nt()
    t = TS.TimeArray(np.int64(dt), time_unit='ps')
    t.convert_unit(unit)
    T = TS.TimeSeries(np.zeros(3), sampling_interval=t, time_unit=unit)
    return T, TS.TimeSeries(np.zeros(3), sampling_rate=T.sampling_rate, time_unit=unit)


def rt_case(unit, dt):
    T, V = rt_pair(unit, dt)
    return Case('C15 mkrate %s %s 3' % (unit, f2x(float(T.sampling_rate))), canon_axis(axis_of(V)), 'ctor/rate-roundtrip', cmp=cmp_axis,
                meta={'op': 'rt', 'unit': unit, 'dt': dt})


def judge_rt(c):
    m = c.meta
    T, V = rt_pair(m['unit'], m['dt'])
    a, b = axis_of(T), axis_of(V)
    if a['dt'] != m['dt'] or b['dt'] != m['dt']:
        return [Failure('ctor/rate-roundtrip/value', 'interval %d ps (unit %s): series built on it has interval %d ps, series built from ITS sampling_rate has %d ps' % (
            m['dt'], m['unit'], a['dt'], b['dt']), {'meta': m}, case=c)]
    return []


def concat_case(specs):
    TS = nt()
    ss = [mk_input(s) for s in specs]
    axs = [axis_of(s) for s in ss]
    C = specs[0]['shape'][0]
    toks = []
    for s in ss:
        toks += [f2x(v) for v in s.data.reshape(-1)]
    line = 'C15 concat %d %s %s %s %s %s' % (C, ','.join(str(a['n']) for a in axs), ','.join(str(a['dt']) for a in axs),
                                           ','.join(a['unit'] for a in axs), ','.join(str(a['t0']) for a in axs), ','.join(toks))
    try:
        R = TS.concatenate_time_series(ss)
        impl = canon_axis(axis_of(R)) + ' ' + ','.join(f2x(v) for v in np.asarray(R.data, dtype=float).reshape(-1))
    except Exception as e:  # noqa
        impl = 'err ' + common.err_kind(e)
    return Case(line, impl, 'concatenate_time_series', cmp=cmp_axis_data, meta={'op': 'concat', 'specs': specs})


def cmp_axis_data(impl, model):
    a, b = impl.split(), model.split()
    if len(a) != 9 or len(b) != 9:
        return impl == model
    return cmp_axis(' '.join(a[:8]), ' '.join(b[:8])) and a[8] == b[8]


def nifti_cases(spec):
    """one axis case per returned series (+ one voxel-selection case per file for plain single-ROI reads)"""
    import nibabel as nib
    out = []
    try:
        R, files = read_nifti(spec)
        err = None
    except Exception as e:  # noqa
        R, files, err = None, [], 'err ' + common.err_kind(e)
    series = [] if R is None else (list(R) if isinstance(R, (list, tuple)) else [R])
    o = spec['opt']
    chain_keys = ['_tseries_from_nifti_helper.0']
    fm = opt_filter(o)
    # the reader's own validation of `normalize` / `filter['method']` (one case per spec; the two refusals are specs)
    out.append(Case('C15 readeropts %s %s' % (opt_normalize(o) or '-', fm or '-'), err or 'ok', 'time_series_from_file/options',
                    meta={'op': 'nifti-options', 'spec': spec}, nontrivial=True))
    if o.startswith('bad-'):
        return out
    if fm in ('fourier', 'boxcar'):
        chain_keys.append('FilterAnalyzer.filtered_%s.0' % fm)
    elif fm == 'fir':
        chain_keys += ['FilterAnalyzer.fir.0', 'FilterAnalyzer.filtfilt.0', 'FilterAnalyzer.filtfilt.0']
    elif fm == 'iir':
        chain_keys.append('FilterAnalyzer.filtfilt.0')
    if 'percent' in o:
        chain_keys.append('NormalizationAnalyzer.percent_change.0')
    if 'zscore' in o:
        chain_keys.append('NormalizationAnalyzer.z_score.0')
    tr = spec['tr']
    trtok = f2x(1.0) if tr is None else tr if isinstance(tr, str) else f2x(float(tr))
    nroi = max(spec['nroi'], 1)
    for r in range(nroi):
        # per-run chains, then concatenate: the model's concat keeps the LAST run's interval
        dummy = dict(unit='s', t0=0, dt=1, n=1, fs=1.0)
        if len(spec['lens']) == 1 and not spec['as_list']:
            chain = [(k, spec['lens'][0]) for k in chain_keys]
            line = axis_line(chain, dummy, {}, trtok)
        else:
            chain = [(k, spec['lens'][-1]) for k in chain_keys] + [('concatenate_time_series.0', sum(spec['lens']))]
            line = axis_line(chain, dummy, {}, trtok)
        impl = err or canon_axis(axis_of(series[r]))
        out.append(Case(line, impl, 'time_series_from_file/' + o, cmp=cmp_axis,
                        meta={'op': 'nifti', 'spec': spec, 'roi': r}, nontrivial=True))
    # voxel selection through the model (exact tokens), for plain reads with coordinates
    if err is None and o == 'plain' and spec['nroi'] >= 1:
        for r in range(nroi):
            c = spec['coords'][r]
            blocks = []
            for f in files:
                v = nib.load(f).get_fdata()
                X, Y, Z, T = v.shape
                toks = ','.join(f2x(x) for x in np.ascontiguousarray(v).reshape(-1))
                blocks.append('C15 coords %d %d %d %d %s %s %s %s' % (X, Y, Z, T, ','.join(map(str, c[0])), ','.join(map(str, c[1])),
                                                                     ','.join(map(str, c[2])), toks))
            got = np.asarray(series[r].data, dtype=float)
            # split the returned data back into runs
            pos = 0
            for bi, (ln, b) in enumerate(zip(spec['lens'], blocks)):
                part = got[..., pos:pos + ln]
                pos += ln
                impl = 'ok %d %d %s' % (part.shape[0] if part.ndim > 1 else 1, part.shape[-1], ','.join(f2x(x) for x in part.reshape(-1)))
                out.append(Case(b, impl, 'time_series_from_file/voxels', meta={'op': 'voxels', 'spec': spec, 'roi': r, 'run': bi}))
    return out


# ------------------------------------------------------------------ oracle (never the Lean model)
def close(a, b, rtol=1e-9):
    a, b = np.asarray(a), np.asarray(b)
    if a.shape != b.shape:
        return False
    if a.size == 0:
        return True
    if np.iscomplexobj(a) or np.iscomplexobj(b):
        a, b = a.astype(complex), b.astype(complex)
    fin = np.isfinite(a) & np.isfinite(b)
    if not (np.isfinite(a) == np.isfinite(b)).all():
        return False
    if not fin.any():
        return True
    sc = max(np.abs(a[fin]).max(), np.abs(b[fin]).max())
    return bool((np.abs(a[fin] - b[fin]) <= rtol * sc + 1e-300).all())


def direct_data(name, getter, T, spec, Fs):
    """the algorithm layer applied to input.data with Fs = 10^12/interval_ps; None = not judged"""
    import scipy.signal as signal
    import nitime.algorithms as tsa
    import nitime.utils as tsu
    d = np.asarray(T.data)
    if name == 'NormalizationAnalyzer':
        m = d.mean(-1)[..., None]
        return (d / m - 1) * 100 if getter == 'percent_change' else (d - m) / d.std(-1)[..., None]
    if name == 'HilbertAnalyzer':
        h = signal.hilbert(d)
        return {'analytic': h, 'amplitude': np.abs(h), 'phase': np.angle(h), 'real': h.real, 'imag': h.imag}[getter]
    if name == 'SNRAnalyzer':
        s = d.mean(0)
        return s if getter == 'signal' else d - s
    if name == 'MorletWaveletAnalyzer':
        rows = []
        for f in [0.2 * float(T.sampling_rate), 0.3 * float(T.sampling_rate)]:
            w = tsa.wmorlet(f, f * 0.2, sampling_rate=Fs, ns=5, normed='area')
            rows.append(np.convolve(d, np.real(w), mode='same') + 1j * np.convolve(d, np.imag(w), mode='same'))
        h = np.array(rows)
        return {'analytic': h, 'amplitude': np.abs(h), 'phase': np.angle(h), 'real': h.real, 'imag': h.imag}[getter]
    if name == 'FilterAnalyzer':
        lb, ub = 0.0537 * float(T.sampling_rate), 0.3071 * float(T.sampling_rate)

        def ff(b, a, x):
            x2 = np.atleast_2d(x)
            o = np.empty(x2.shape)
            for i in range(x2.shape[0]):
                y = signal.filtfilt(b, a, x2[i])
                o[i] = y - y.mean() + x2[i].mean()
            return o.reshape(x.shape)
        fo = filter_opts(spec)
        if getter == 'filtered_boxcar':
            return tsa.boxcar_filter(np.copy(d), lb=lb / Fs, ub=ub / Fs, n_iterations=fo.get('boxcar_iterations', 2))
        if getter == 'filtered_fourier':
            n = d.shape[-1]
            freqs = np.arange(n // 2 + 1) * Fs / n          # DFT bin frequencies j*Fs/n (odd n: the last bin is below Fs/2)
            p = np.fft.fft(d)
            idx = np.hstack([np.where(freqs < lb)[0], np.where(freqs > ub)[0]])
            dc = np.copy(p[..., 0])
            p[..., idx] = 0
            p[..., -1 * idx] = 0
            p[..., 0] = dc
            return np.real(np.fft.ifft(p))
        if getter == 'iir':
            lf, uf = lb / (Fs / 2), ub / (Fs / 2)
            b, a = signal.iirdesign([lf, uf], [max(lf - 0.1, 0.001), min(uf + 0.1, 0.999)], fo.get('gpass', 1), fo.get('gstop', 60),
                                    ftype=fo.get('iir_ftype', 'ellip'))
            return ff(b, a, d)
        if getter == 'fir':
            lf, uf = lb / (Fs / 2), ub / (Fs / 2)
            order, win = fo['filt_order'], fo.get('fir_win', 'hamming')
            b1 = signal.firwin(order + 1, uf, window=win)
            x = ff(b1, [1], d)
            b2 = -1 * signal.firwin(order + 1, lf, window=win)
            b2[order // 2] += 1
            return ff(b2, [1], x)
    if name == 'EventRelatedAnalyzer' and getter in ('eta', 'ets', 'FIR', 'et_data'):
        # plain-index event averages per row with the ROW'S OWN sorted codes (the recording read as the exact float64
        # embedding of what is stored); FIR = the algorithm layer (fir_design_matrix + fir) on the zero-padded rows
        n = d.shape[-1]
        off, L = spec['offset'], spec['len_et']
        x2 = np.atleast_2d(np.asarray(d, dtype=float))
        if spec.get('ev_kind') == 'Events':
            if getter in ('FIR', 'et_data'):
                return None
            groups = [[[6, 11, 17, 23]]] * x2.shape[0]
        else:
            rows, is2d = event_rows(n, spec, x2.shape[0] if d.ndim == 2 else None)
            groups = []
            for ch in range(x2.shape[0]):
                ev = rows[ch] if is2d else rows[0]
                groups.append([list(np.where(ev == e)[0]) for e in sorted(set(ev[ev != 0]))])
        if getter == 'FIR':
            res = []
            for ch in range(x2.shape[0]):
                ev = (rows[ch] if is2d else rows[0])
                pe = np.hstack([np.zeros(off), ev, np.zeros(L)])
                pd = np.hstack([np.zeros(off), x2[ch], np.zeros(L)])
                h = tsa.fir(pd, tsu.fir_design_matrix(np.roll(pe, off), L))
                res.append(np.reshape(h, (len(groups[ch]), L)))
            return np.array(res).squeeze()
        if getter == 'et_data':      # get_output hands back the first channel's first code
            return np.array([[x2[0][i + off + k] for k in range(L)] for i in groups[0][0]])
        res = []
        for ch in range(x2.shape[0]):
            out_rows = []
            for idx in groups[ch]:
                seg = np.array([[x2[ch][i + off + k] for k in range(L)] for i in idx])
                if spec.get('cb'):
                    seg = seg - seg[:, :1]
                if getter == 'eta':
                    out_rows.append(seg.mean(0))
                else:
                    out_rows.append(seg.std(0, ddof=1) / np.sqrt(len(idx)))
            res.append(out_rows)
        return np.array(res).squeeze()
    return None


def judge_output(c):
    """property judgement of one analyzer output (re-runs the real code: replayable)"""
    m = c.meta
    name, getter, kind, spec = m['name'], m['getter'], m['kind'], m['spec']
    impl, a_in, a, O, T = run_output(name, getter, spec)
    fails = []

    def fail(field, what):
        fails.append(Failure('%s/%s/%s' % (name, getter, field),
                             '%s.%s: %s  [input unit=%s t0=%d ps interval=%d ps n=%d shape=%s]' % (
                                 name, getter, what, a_in['unit'], a_in['t0'], a_in['dt'], a_in['n'], spec['shape']),
                             {'meta': m}, case=c))
    if a is None:
        fail('raises', 'analyzer output raised: ' + impl)
        return fails
    if a['tlen'] != a['n'] or not a['uniform'] or a['first'] != a['t0']:
        fail('time', '.time is not the uniform axis t0 + k*interval of length n')
    if a['unit'] != a_in['unit']:
        fail('time_unit', 'output unit %r, input unit %r' % (a['unit'], a_in['unit']))
    if a['dt'] != a_in['dt']:
        fail('sampling_interval', 'output interval %d ps, input interval %d ps' % (a['dt'], a_in['dt']))
    Fs = 10.0**12 / a_in['dt']
    if abs(a['fs'] - Fs) > 1e-12 * Fs:
        fail('sampling_rate', 'output rate %r Hz, expected 10^12/interval = %r' % (a['fs'], Fs))
    if kind == 'same':
        if a['t0'] != a_in['t0']:
            fail('t0', 'output starts at %d ps, input at %d ps' % (a['t0'], a_in['t0']))
        if a['n'] != a_in['n']:
            fail('n', 'output has %d samples, input %d' % (a['n'], a_in['n']))
    elif kind == 'lag':
        n = a_in['n']
        if a['n'] != 2 * n - 1:
            fail('n', 'lag axis has %d samples, expected 2n-1 = %d' % (a['n'], 2 * n - 1))
        tm = np.asarray(O.time).astype(np.int64)
        if tm[n - 1] != 0:
            fail('zero-lag-label', 'the zero-lag sample (index n-1 = %d of 2n-1) is labelled %d ps, time 0 sits on index %s' % (
                n - 1, tm[n - 1], list(np.where(tm == 0)[0])))
        # data: the sample at the true zero lag is the plain inner product
        if getter == 'xcorr':
            d = np.asarray(T.data, dtype=float)      # (an inner product formed in int16 would wrap: the reference works on the exact embedding)
            want = np.array([[np.dot(d[i], d[j]) for j in range(d.shape[0])] for i in range(d.shape[0])])
            got = np.asarray(O.data)[..., n - 1]
            iu = np.triu_indices(d.shape[0])
            if not close(got[iu], want[iu]):
                fail('data', 'xcorr at index n-1 is not the zero-lag inner product')
    elif kind == 'offset':
        if a['t0'] != spec['offset'] * a_in['dt']:
            fail('t0', 'event-locked output starts at %d ps, expected offset*interval = %d' % (a['t0'], spec['offset'] * a_in['dt']))
        if a['n'] != spec['len_et']:
            fail('n', 'event-locked output has %d samples, expected len_et = %d' % (a['n'], spec['len_et']))
    if kind in ('same', 'offset') and O is not None:
        want = direct_data(name, getter, T, spec, Fs)
        if want is not None and not close(np.asarray(O.data), want, 2e-5 if spec.get('dtype') == 'float32' and name != 'EventRelatedAnalyzer' else 1e-8):
            fail('data', 'output data differ from the direct algorithm call on input.data with Fs=%r' % Fs)
    return fails


def spectral_experiments(spec):
    """array-valued outputs: analyzer result vs direct algorithm call with Fs = 10^12/interval_ps"""
    import nitime.algorithms as tsa
    import nitime.utils as tsu
    A = na()
    T = mk_input(spec)
    a_in = axis_of(T)
    Fs = 10.0**12 / a_in['dt']
    d = np.asarray(T.data)
    fails = []

    def chk(name, getter, got, want, what):
        ok = all(close(g, w, 1e-8) for g, w in zip(got, want)) if isinstance(want, (tuple, list)) else close(got, want, 1e-8)
        if not ok:
            fails.append(Failure('%s/%s/%s' % (name, getter, what),
                                 '%s.%s differs from the direct algorithm call with Fs = 10^12/interval_ps = %r Hz [unit=%s interval=%d ps]' % (
                                     name, getter, Fs, a_in['unit'], a_in['dt']), {'meta': {'op': 'spectral', 'spec': spec}}))

    def attempt(name, getter, fn):
        try:
            fn()
        except Exception as e:  # noqa
            fails.append(Failure('%s/%s/raises' % (name, getter), '%s.%s raised %r' % (name, getter, e), {'meta': {'op': 'spectral', 'spec': spec}}))
    rate = float(T.sampling_rate)
    if abs(rate - Fs) > 1e-12 * Fs:
        fails.append(Failure('TimeSeries/sampling_rate/value', 'sampling_rate %r Hz for interval %d ps (unit %s)' % (rate, a_in['dt'], a_in['unit']),
                             {'meta': {'op': 'spectral', 'spec': spec}}))
    S = A.SpectralAnalyzer(T)
    # the same analyzer class, first built on ANOTHER series (4x the interval, another unit, other data) and then
    # re-targeted with set_input: its results must be the direct algorithm call on the NEW series with the NEW rate
    # (a getter that takes Fs from a parameter dict filled at construction reports the old rate here)
    iv0 = nt().TimeArray(np.int64(a_in['dt']) * 4, time_unit='ps')
    iv0.convert_unit('us' if a_in['unit'] != 'us' else 'ms')
    T0 = nt().TimeSeries(d[..., ::-1] * 0.5 + 1.0, sampling_interval=iv0, time_unit=iv0.time_unit)
    S2 = A.SpectralAnalyzer(T0)
    S2.set_input(T)
    # reference: the same data on the same picosecond interval, expressed in seconds and starting at 0 (the
    # configuration the repo's own tests cover) — used where the expected grid is the analyzer's own definition
    # (frequency-grid conventions are C05's clauses; here only the unit-independence of Fs is judged)
    iv_s = nt().TimeArray(np.int64(a_in['dt']), time_unit='ps')
    iv_s.convert_unit('s')
    Tref = nt().TimeSeries(d, sampling_interval=iv_s, time_unit='s')

    def in_hz(name, getter, f):
        f = np.asarray(f, dtype=float)
        if not (0.2 * Fs <= np.abs(f).max() <= 0.5 * Fs * (1 + 1e-9)):
            fails.append(Failure('%s/%s/not-in-hz' % (name, getter), '%s.%s: largest frequency %r is not in (0.2 Fs, 0.5 Fs] for Fs = %r Hz [unit=%s interval=%d ps]' % (
                name, getter, np.abs(f).max(), Fs, a_in['unit'], a_in['dt']), {'meta': {'op': 'spectral', 'spec': spec}}))

    def psd():
        f, p = S.psd
        rows = [tsa.mlab.psd(x, NFFT=64, Fs=Fs, detrend=tsa.mlab.detrend_none, window=tsa.mlab.window_hanning, noverlap=32) for x in np.atleast_2d(d)]
        chk('SpectralAnalyzer', 'psd', (f, p), (rows[0][1], np.array([r[0].squeeze() for r in rows]).squeeze()), 'value')
    attempt('SpectralAnalyzer', 'psd', psd)
    attempt('SpectralAnalyzer', 'cpsd', lambda: chk('SpectralAnalyzer', 'cpsd', S.cpsd, tsa.get_spectra(d, method={'this_method': 'welch', 'Fs': Fs}), 'value'))
    attempt('SpectralAnalyzer', 'periodogram', lambda: chk('SpectralAnalyzer', 'periodogram', S.periodogram, tsa.periodogram(d, Fs=Fs), 'value'))
    attempt('SpectralAnalyzer', 'spectrum_fourier', lambda: chk('SpectralAnalyzer', 'spectrum_fourier', S.spectrum_fourier,
                                                                (tsu.get_freqs(Fs, d.shape[-1]), __import__('scipy.fftpack').fftpack.fft(d)[..., :len(tsu.get_freqs(Fs, d.shape[-1]))]), 'value'))

    def mt():
        f, p = S.spectrum_multi_taper
        rows = [tsa.multi_taper_psd(x, Fs=Fs, BW=None, adaptive=False, low_bias=False) for x in np.atleast_2d(d)]
        chk('SpectralAnalyzer', 'spectrum_multi_taper', (f, p), (rows[0][0], np.array([r[1] for r in rows]).reshape(np.asarray(p).shape)), 'value')
    attempt('SpectralAnalyzer', 'spectrum_multi_taper', mt)

    def retargeted():
        f, p = S2.psd
        rows = [tsa.mlab.psd(x, NFFT=64, Fs=Fs, detrend=tsa.mlab.detrend_none, window=tsa.mlab.window_hanning, noverlap=32) for x in np.atleast_2d(d)]
        chk('SpectralAnalyzer', 'psd/after-set_input', (f, p), (rows[0][1], np.array([r[0].squeeze() for r in rows]).squeeze()), 'value')
        chk('SpectralAnalyzer', 'periodogram/after-set_input', S2.periodogram, tsa.periodogram(d, Fs=Fs), 'value')
        chk('SpectralAnalyzer', 'cpsd/after-set_input', S2.cpsd, tsa.get_spectra(d, method={'this_method': 'welch', 'Fs': Fs}), 'value')
        f2, p2 = S2.spectrum_multi_taper
        rows = [tsa.multi_taper_psd(x, Fs=Fs, BW=None, adaptive=False, low_bias=False) for x in np.atleast_2d(d)]
        chk('SpectralAnalyzer', 'spectrum_multi_taper/after-set_input', (f2, p2), (rows[0][0], np.array([r[1] for r in rows]).reshape(np.asarray(p2).shape)), 'value')
    attempt('SpectralAnalyzer', 'after-set_input', retargeted)

    def shared_method():
        # two analyzers sharing one user-supplied method dict without 'Fs': what the first one writes into the dict
        # must not leak into the second one's results
        m = {'this_method': 'welch', 'NFFT': 64}
        Sa = A.SpectralAnalyzer(T0, method=m)
        Sa.cpsd
        Sb = A.SpectralAnalyzer(T, method=m)
        f, p = Sb.psd
        rows = [tsa.mlab.psd(x, NFFT=64, Fs=Fs, detrend=tsa.mlab.detrend_none, window=tsa.mlab.window_hanning, noverlap=32) for x in np.atleast_2d(d)]
        chk('SpectralAnalyzer', 'psd/shared-method-dict', (f, p), (rows[0][1], np.array([r[0].squeeze() for r in rows]).squeeze()), 'value')
    attempt('SpectralAnalyzer', 'shared-method-dict', shared_method)
    # OPTIONAL ARGUMENTS of the analyzers at non-default values (bandwidth in Hz, adaptive weighting, bias correction, wavelet
    # grids, pass-bands of the sparse / seed coherence, phase unwrapping): against the direct algorithm call where one
    # exists, else against the same analyzer on the same samples expressed in seconds starting at 0
    bw = 0.09 * Fs

    def mt_opts():
        S3 = A.SpectralAnalyzer(T, BW=bw, adaptive=True, low_bias=True)
        f, p = S3.spectrum_multi_taper
        rows = [tsa.multi_taper_psd(x, Fs=Fs, BW=bw, adaptive=True, low_bias=True) for x in np.atleast_2d(d)]
        chk('SpectralAnalyzer', 'spectrum_multi_taper/options', (f, p), (rows[0][0], np.array([r[1] for r in rows]).reshape(np.asarray(p).shape)), 'value')
    attempt('SpectralAnalyzer', 'spectrum_multi_taper/options', mt_opts)

    def unit_indep(name, ctor, getters):
        a1, a2 = ctor(T), ctor(Tref)
        for g in getters:
            v1, v2 = getattr(a1, g), getattr(a2, g)
            if isinstance(v1, nt().TimeSeries):
                v1, v2 = np.asarray(v1.data), np.asarray(v2.data)
            chk(name, g + '/options', v1, v2, 'value')
            if g == 'frequencies':
                in_hz(name, g + '/options', v1)
    if d.ndim == 1:
        attempt('MorletWaveletAnalyzer', 'options', lambda: unit_indep(
            'MorletWaveletAnalyzer', lambda X: A.MorletWaveletAnalyzer(X, f_min=0.1 * Fs, f_max=0.4 * Fs, nfreqs=4, sd_rel=0.3, log_spacing=True), ['analytic', 'amplitude']))
        attempt('MorletWaveletAnalyzer', 'options-log', lambda: unit_indep(
            'MorletWaveletAnalyzer', lambda X: A.MorletWaveletAnalyzer(X, freqs=[0.2 * Fs, 0.3 * Fs], sd=np.array([0.0517 * Fs, 0.0613 * Fs])), ['analytic', 'phase']))
        # (log_morlet=True is not exercised: wlogmorlet(normed='area') divides by the sum of a zero-mean wavelet, i.e. by
        #  rounding noise -- the result changes by 50 % with the last bit of Fs; observed, an algorithm-layer matter)
    if d.ndim == 2:
        def snr_opts():
            Z = A.SNRAnalyzer(T, bandwidth=bw, adaptive=True, low_bias=True)
            _, p, _ = tsa.multi_taper_psd(d.mean(0), Fs=Fs, BW=bw, adaptive=True, low_bias=True)
            chk('SNRAnalyzer', 'mt_signal_psd/options', Z.mt_signal_psd, p, 'value')
        attempt('SNRAnalyzer', 'mt/options', snr_opts)
        wm = {'this_method': 'welch', 'NFFT': 32, 'n_overlap': 16}
        attempt('MTCoherenceAnalyzer', 'options', lambda: unit_indep(
            'MTCoherenceAnalyzer', lambda X: A.MTCoherenceAnalyzer(X, bandwidth=bw, alpha=0.1, adaptive=False), ['frequencies', 'coherence']))
        attempt('CoherenceAnalyzer', 'options', lambda: unit_indep(
            'CoherenceAnalyzer', lambda X: A.CoherenceAnalyzer(X, method=dict(wm), unwrap_phases=True), ['frequencies', 'phase', 'delay']))
        attempt('SparseCoherenceAnalyzer', 'options', lambda: unit_indep(
            'SparseCoherenceAnalyzer', lambda X: A.SparseCoherenceAnalyzer(X, ij=[(0, 1), (1, 2)] if d.shape[0] > 2 else [(0, 1)], method=dict(wm), lb=0.1 * Fs, ub=0.4 * Fs,
                                                                           prefer_speed_over_memory=False, scale_by_freq=False), ['frequencies', 'coherence']))

        def seed_opts():
            def ctor(X):
                sd_ = nt().TimeSeries(np.asarray(X.data)[0], sampling_interval=X.sampling_interval, time_unit=X.time_unit, t0=X.t0)
                return A.SeedCoherenceAnalyzer(sd_, X, method=dict(wm), lb=0.1 * Fs, ub=0.4 * Fs, prefer_speed_over_memory=False, scale_by_freq=False)
            unit_indep('SeedCoherenceAnalyzer', ctor, ['frequencies', 'coherence'])
        attempt('SeedCoherenceAnalyzer', 'options', seed_opts)
    if d.ndim == 2:
        Cn = A.CoherenceAnalyzer(T, method={'this_method': 'welch', 'NFFT': 32, 'n_overlap': 16})

        def coh():
            f, c = tsa.coherence(d, csd_method={'this_method': 'welch', 'NFFT': 32, 'n_overlap': 16, 'Fs': Fs})
            chk('CoherenceAnalyzer', 'frequencies', Cn.frequencies, f, 'value')
            chk('CoherenceAnalyzer', 'coherence', Cn.coherence, c, 'value')
        attempt('CoherenceAnalyzer', 'coherence', coh)

        def mtc():
            M = A.MTCoherenceAnalyzer(T)
            chk('MTCoherenceAnalyzer', 'frequencies', M.frequencies, A.MTCoherenceAnalyzer(Tref).frequencies, 'value')
            in_hz('MTCoherenceAnalyzer', 'frequencies', M.frequencies)
        attempt('MTCoherenceAnalyzer', 'frequencies', mtc)

        def corr():
            K = A.CorrelationAnalyzer(T)
            chk('CorrelationAnalyzer', 'corrcoef', K.corrcoef, np.corrcoef(d), 'value')
        attempt('CorrelationAnalyzer', 'corrcoef', corr)

        def snr():
            Z = A.SNRAnalyzer(T)
            chk('SNRAnalyzer', 'mt_frequencies', Z.mt_frequencies, A.SNRAnalyzer(Tref).mt_frequencies, 'value')
            in_hz('SNRAnalyzer', 'mt_frequencies', Z.mt_frequencies)
            _, p, _ = tsa.multi_taper_psd(d.mean(0), Fs=Fs, BW=None, adaptive=False, low_bias=False)
            chk('SNRAnalyzer', 'mt_signal_psd', Z.mt_signal_psd, p, 'value')
        attempt('SNRAnalyzer', 'mt', snr)

        def gr():
            G = A.GrangerAnalyzer(T, order=2, n_freqs=32)
            chk('GrangerAnalyzer', 'frequencies', G.frequencies, A.GrangerAnalyzer(Tref, order=2, n_freqs=32).frequencies, 'value')
            in_hz('GrangerAnalyzer', 'frequencies', G.frequencies)
        attempt('GrangerAnalyzer', 'frequencies', gr)

        def seedc():
            seed = nt().TimeSeries(d[0], sampling_interval=T.sampling_interval, time_unit=T.time_unit, t0=T.t0)
            SC = A.SeedCoherenceAnalyzer(seed, T, method={'this_method': 'welch', 'NFFT': 32, 'n_overlap': 16})
            sref = nt().TimeSeries(d[0], sampling_interval=iv_s, time_unit='s')
            chk('SeedCoherenceAnalyzer', 'frequencies', SC.frequencies,
                A.SeedCoherenceAnalyzer(sref, Tref, method={'this_method': 'welch', 'NFFT': 32, 'n_overlap': 16}).frequencies, 'value')
            in_hz('SeedCoherenceAnalyzer', 'frequencies', SC.frequencies)
        attempt('SeedCoherenceAnalyzer', 'frequencies', seedc)
    return fails



# ------------------------------------------------------------------ histories on ONE analyzer object (sequence / retarget)
ALL_ANALYZERS = ['SpectralAnalyzer', 'CoherenceAnalyzer', 'MTCoherenceAnalyzer', 'SparseCoherenceAnalyzer', 'SeedCoherenceAnalyzer',
                 'CorrelationAnalyzer', 'SeedCorrelationAnalyzer', 'GrangerAnalyzer', 'SNRAnalyzer', 'HilbertAnalyzer',
                 'MorletWaveletAnalyzer', 'NormalizationAnalyzer', 'FilterAnalyzer', 'EventRelatedAnalyzer']
HAS_SET_INPUT = ['SpectralAnalyzer', 'CoherenceAnalyzer', 'MTCoherenceAnalyzer', 'SparseCoherenceAnalyzer', 'CorrelationAnalyzer',
                 'GrangerAnalyzer', 'SNRAnalyzer', 'HilbertAnalyzer', 'MorletWaveletAnalyzer', 'NormalizationAnalyzer']


def hist_input(spec, name, variant=0):
    """input of the history experiments: 3 x 96 (1-d for the wavelet), strictly positive for the normaliser;
    variant 1 = ANOTHER series (half the interval, another unit, other data, other start)"""
    sp = dict(spec)
    n = sp.get('n', 96)
    sp['shape'] = [n] if name == 'MorletWaveletAnalyzer' else [3, n]
    sp['pos'] = name == 'NormalizationAnalyzer'
    T = mk_input(sp)
    if variant == 0:
        return T
    iv0 = nt().TimeArray(np.int64(ps_of(T.sampling_interval) // 2), time_unit='ps')
    iv0.convert_unit('us' if T.time_unit != 'us' else 'ms')
    return nt().TimeSeries(np.asarray(T.data)[..., ::-1] * 0.5 + 3.0, sampling_interval=iv0, time_unit=iv0.time_unit, t0=iv0 * 7)


def hist_analyzer(name, T, fs_new):
    """one analyzer of class `name` on T; parameters given in Hz are fixed from the series under test (fs_new)"""
    A = na()
    m = {'this_method': 'welch', 'NFFT': 32, 'n_overlap': 16}
    if name == 'CoherenceAnalyzer':
        return A.CoherenceAnalyzer(T, method=dict(m))
    if name == 'SparseCoherenceAnalyzer':
        return A.SparseCoherenceAnalyzer(T, ij=[(0, 1), (1, 2)], method=dict(m))
    if name == 'SeedCoherenceAnalyzer':
        seed = nt().TimeSeries(np.asarray(T.data)[0], sampling_interval=T.sampling_interval, time_unit=T.time_unit, t0=T.t0)
        return A.SeedCoherenceAnalyzer(seed, T, method=dict(m))
    if name == 'SeedCorrelationAnalyzer':
        seed = nt().TimeSeries(np.asarray(T.data)[0], sampling_interval=T.sampling_interval, time_unit=T.time_unit, t0=T.t0)
        return A.SeedCorrelationAnalyzer(seed, T)
    if name == 'GrangerAnalyzer':
        return A.GrangerAnalyzer(T, order=2, n_freqs=32)
    if name == 'MorletWaveletAnalyzer':
        return A.MorletWaveletAnalyzer(T, freqs=[0.2 * fs_new, 0.3 * fs_new])
    if name == 'FilterAnalyzer':
        return A.FilterAnalyzer(T, lb=0.0537 * fs_new, ub=0.3071 * fs_new, filt_order=8)
    if name == 'EventRelatedAnalyzer':
        return A.EventRelatedAnalyzer(T, events_for(T, {'ev_mode': 'rows-diff'}), 5, offset=1, correct_baseline=True)
    return getattr(A, name)(T)


def output_names(an):
    import inspect
    from nitime import descriptors as desc
    out = []
    for k in dir(type(an)):
        if k.startswith('_'):
            continue
        if isinstance(inspect.getattr_static(type(an), k), desc.OneTimeProperty):
            out.append(k)
    return sorted(out)


def snap(v):
    """deep, comparable snapshot of an analyzer result: list of (kind, payload)"""
    import copy
    if isinstance(v, nt().TimeSeries):
        a = axis_of(v)
        return [('axis', (a['unit'], a['t0'], a['dt'], a['n']))] + snap(np.asarray(v.data))
    if isinstance(v, (tuple, list)):
        out = []
        for x in v:
            out += snap(x)
        return out
    if isinstance(v, dict):
        out = []
        for k in sorted(v, key=repr):
            out += [('key', repr(k))] + snap(v[k])
        return out
    try:
        a = np.array(v, copy=True)
        if a.dtype.kind not in 'biufc':
            return [('obj', repr(v)[:200])]
        return [('arr', a)]
    except Exception:  # noqa
        return [('obj', repr(v)[:200])]


def same_snap(a, b, rtol=1e-9):
    if len(a) != len(b):
        return False
    for (ka, va), (kb, vb) in zip(a, b):
        if ka != kb:
            return False
        if ka == 'arr':
            if va.dtype.kind == 'b' or vb.dtype.kind == 'b':
                va, vb = va.astype(float), vb.astype(float)
            if not close(va, vb, rtol):
                return False
        elif va != vb:
            return False
    return True


def read(an, g):
    """-> ('ok', value) or ('err', kind)"""
    try:
        return 'ok', getattr(an, g)
    except Exception as e:  # noqa
        return 'err', common.err_kind(e)


def direct_array(name, g, T, Fs):
    """direct algorithm call for array-valued outputs where one exists (None otherwise)"""
    import nitime.algorithms as tsa
    d = np.asarray(T.data)
    if name == 'CorrelationAnalyzer' and g == 'xcorr':
        k = d.shape[0]
        return np.array([[np.correlate(d[min(i, j)], d[max(i, j)], mode='full') for j in range(k)] for i in range(k)])
    if name == 'CorrelationAnalyzer' and g == 'xcorr_norm':
        k, n = d.shape[0], d.shape[-1]
        cc = np.corrcoef(d)
        out = np.array([[np.correlate(d[min(i, j)], d[max(i, j)], mode='full') for j in range(k)] for i in range(k)])
        for i in range(k):
            for j in range(k):
                out[i, j] = out[i, j] / out[i, j, n - 1] * cc[i, j]
        return out
    if name == 'CorrelationAnalyzer' and g == 'corrcoef':
        return np.corrcoef(d)
    if name == 'SpectralAnalyzer' and g == 'periodogram':
        return tsa.periodogram(d, Fs=Fs)
    if name == 'SpectralAnalyzer' and g == 'cpsd':
        return tsa.get_spectra(d, method={'this_method': 'welch', 'Fs': Fs})
    if name == 'CoherenceAnalyzer' and g == 'coherence':
        return tsa.coherence(d, csd_method={'this_method': 'welch', 'NFFT': 32, 'n_overlap': 16, 'Fs': Fs})[1]
    if name == 'CoherenceAnalyzer' and g == 'frequencies':
        return tsa.coherence(d, csd_method={'this_method': 'welch', 'NFFT': 32, 'n_overlap': 16, 'Fs': Fs})[0]
    return None


def history_experiments(spec, name, pair_budget, rng):
    """(1) fresh analyzer per output (reference; compared with the direct algorithm call where one exists);
    (2) every ordered PAIR (a, b) read on the SAME object: b must equal the fresh b, the a handed out earlier must
        not change, input.data must not change;
    (3) for classes with set_input: an object built on ANOTHER series, all outputs read, then set_input(T) and ONE
        output read first: must equal the fresh analyzer's on T."""
    fails = []
    T = hist_input(spec, name)
    a_in = axis_of(T)
    Fs = 10.0**12 / a_in['dt']
    fs_new = float(T.sampling_rate)
    raw0 = np.array(T.data, copy=True)
    meta = {'op': 'history', 'spec': spec, 'name': name}

    def fail(key, what):
        fails.append(Failure(key, '%s [input unit=%s t0=%d ps interval=%d ps shape=%s]' % (what, a_in['unit'], a_in['t0'], a_in['dt'], list(raw0.shape)),
                             {'meta': meta}))
    names = output_names(hist_analyzer(name, T, fs_new))
    fresh = {}
    for g in names:
        st, v = read(hist_analyzer(name, T, fs_new), g)
        if st == 'ok':
            fresh[g] = snap(v)
            want = direct_array(name, g, T, Fs)
            if want is not None and not same_snap([x for x in fresh[g] if x[0] != 'axis'], snap(want), 1e-8):
                fail('%s/%s/value' % (name, g), '%s.%s (fresh analyzer) differs from the direct algorithm call with Fs=%r' % (name, g, Fs))
    good = [g for g in names if g in fresh]
    if not (np.asarray(T.data) == raw0).all():
        fail('sequence/%s/fresh/input-mutated' % name, 'reading outputs of fresh %s analyzers changed input.data' % name)
    # (2) ordered pairs
    pairs = [(a, b) for a in good for b in good if a != b]
    if len(pairs) > pair_budget:
        rng.shuffle(pairs)
        keep, seen_a, seen_b = [], set(), set()
        for a, b in pairs:          # every output at least once first and once second, then fill up
            if a not in seen_a or b not in seen_b:
                keep.append((a, b)); seen_a.add(a); seen_b.add(b)
        for pr in pairs:
            if len(keep) >= pair_budget:
                break
            if pr not in keep:
                keep.append(pr)
        pairs = keep
    for a, b in pairs:
        an = hist_analyzer(name, T, fs_new)
        sa, va = read(an, a)
        if sa != 'ok':
            continue
        first = snap(va)
        sb, vb = read(an, b)
        if sb != 'ok':
            fail('sequence/%s/%s-then-%s/raises' % (name, a, b), '%s: reading %s after %s raised %s' % (name, b, a, vb))
            continue
        if not same_snap(snap(vb), fresh[b]):
            fail('sequence/%s/%s-then-%s/value' % (name, a, b), '%s: %s read after %s differs from %s of a fresh analyzer' % (name, b, a, b))
        if not same_snap(snap(va), first):
            fail('sequence/%s/%s-then-%s/earlier-result-changed' % (name, a, b),
                 '%s: the %s result handed out earlier was modified by reading %s' % (name, a, b))
        if not (np.asarray(T.data) == raw0).all():
            fail('sequence/%s/%s-then-%s/input-mutated' % (name, a, b), '%s: input.data changed' % name)
            T = hist_input(spec, name)
    # (3) re-targeting
    if name in HAS_SET_INPUT:
        T0 = hist_input(spec, name, 1)
        for g in good:
            an = hist_analyzer(name, T0, fs_new)
            for h in names:
                read(an, h)
            try:
                an.set_input(T)
            except Exception as e:  # noqa
                fail('retarget/%s/set_input/raises' % name, '%s.set_input raised %r' % (name, e))
                break
            st, v = read(an, g)
            if st != 'ok':
                fail('retarget/%s/%s/raises' % (name, g), '%s: %s read first after set_input raised %s' % (name, g, v))
            elif not same_snap(snap(v), fresh[g]):
                fail('retarget/%s/%s/value' % (name, g), '%s: %s read first after set_input(new series) differs from a fresh analyzer on the new series '
                     '(Fs = 10^12/interval_ps = %r Hz)' % (name, g, Fs))
    # (4) hidden state across OBJECTS: a result handed out by one analyzer is overwritten by the caller, the input's
    #     data are modified in place, then a NEW analyzer is built on the SAME input object: its output must equal that
    #     of an analyzer on a brand-new series holding the same (current) data
    for g in good:
        T = hist_input(spec, name)
        st, v = read(hist_analyzer(name, T, fs_new), g)
        if st == 'ok':
            scribble(v)
        T.data *= 1.5
        T.data += 0.25
        Tn = nt().TimeSeries(np.array(T.data, copy=True), sampling_interval=T.sampling_interval, time_unit=T.time_unit, t0=T.t0)
        s1, v1 = read(hist_analyzer(name, Tn, fs_new), g)
        s2, v2 = read(hist_analyzer(name, T, fs_new), g)
        if s1 == 'ok' and (s2 != 'ok' or not same_snap(snap(v2), snap(v1))):
            fail('reuse-input/%s/%s/value' % (name, g), '%s: %s of a NEW analyzer on the same input object, after an earlier result was overwritten and '
                 'input.data modified in place, differs from an analyzer on a new series with the same data' % (name, g))
    return fails, len(pairs), len(good)


def scribble(v):
    """the caller overwrites what it was handed (arrays inside series / tuples / dicts), in place"""
    if isinstance(v, nt().TimeSeries):
        return scribble(v.data)
    if isinstance(v, (tuple, list)):
        for x in v:
            scribble(x)
    elif isinstance(v, dict):
        for x in v.values():
            scribble(x)
    elif isinstance(v, np.ndarray) and v.dtype.kind in 'fc' and v.flags.writeable:
        v[...] = -7.0



# ------------------------------------------------------------------ Fs handed to the algorithm layer (argument snapshots by wrapping)
FS_SITES = [('SpectralAnalyzer', 'psd'), ('SpectralAnalyzer', 'cpsd'), ('SpectralAnalyzer', 'periodogram'),
            ('SpectralAnalyzer', 'spectrum_fourier'), ('SpectralAnalyzer', 'spectrum_multi_taper'),
            ('CoherenceAnalyzer', 'spectrum'), ('CoherenceAnalyzer', 'frequencies'), ('SparseCoherenceAnalyzer', 'frequencies'),
            ('SeedCoherenceAnalyzer', 'frequencies'), ('SNRAnalyzer', 'mt_signal_psd'), ('SNRAnalyzer', 'mt_noise_psd'),
            ('FilterAnalyzer', 'filtered_fourier'), ('MorletWaveletAnalyzer', 'analytic')]
OVERRIDABLE = [('CoherenceAnalyzer', 'spectrum'), ('CoherenceAnalyzer', 'frequencies'), ('SparseCoherenceAnalyzer', 'frequencies'),
               ('SeedCoherenceAnalyzer', 'frequencies')]


def capture_fs(name, getter, spec, user_fs=None):
    """read one output with the algorithm-layer entry points wrapped; returns the list of sampling rates they were given"""
    import nitime.algorithms as tsa
    import nitime.utils as tsu
    got = []

    def wrap(mod, fname, how):
        orig = getattr(mod, fname)

        def w(*a, **k):
            if how == 'kw':
                if 'Fs' in k:
                    got.append(float(k['Fs']))
                elif 'sampling_rate' in k:
                    got.append(float(k['sampling_rate']))
            elif how == 'dict':
                m = k.get('method') or k.get('csd_method') or (a[1] if len(a) > 1 and isinstance(a[1], dict) else None)
                if isinstance(m, dict) and 'Fs' in m:
                    got.append(float(m['Fs']))
            elif how == 'arg0':
                got.append(float(a[0]))
            return orig(*a, **k)
        setattr(mod, fname, w)
        return (mod, fname, orig)
    T = hist_input(spec, name)
    fs_new = float(T.sampling_rate)
    if user_fs is not None:
        A = na()
        m = {'this_method': 'welch', 'NFFT': 32, 'n_overlap': 16, 'Fs': user_fs}
        if name == 'CoherenceAnalyzer':
            an = A.CoherenceAnalyzer(T, method=m)
        elif name == 'SparseCoherenceAnalyzer':
            an = A.SparseCoherenceAnalyzer(T, ij=[(0, 1), (1, 2)], method=m)
        else:
            seed = nt().TimeSeries(np.asarray(T.data)[0], sampling_interval=T.sampling_interval, time_unit=T.time_unit, t0=T.t0)
            an = A.SeedCoherenceAnalyzer(seed, T, method=m)
    else:
        an = hist_analyzer(name, T, fs_new)
    saved = [wrap(tsa, 'periodogram', 'kw'), wrap(tsa, 'multi_taper_psd', 'kw'), wrap(tsa, 'get_spectra', 'dict'),
             wrap(tsa, 'cache_fft', 'dict'), wrap(__import__('matplotlib.mlab').mlab, 'psd', 'kw'), wrap(tsu, 'get_freqs', 'arg0'),
             wrap(tsa, 'wmorlet', 'kw')]
    if name == 'MorletWaveletAnalyzer':
        an.wavelet = tsa.wmorlet        # the analyzer bound the function at construction
    try:
        getattr(an, getter)
    finally:
        for mod, fname, orig in saved:
            setattr(mod, fname, orig)
    return got, axis_of(T)


def fs_case(name, getter, spec, user_fs=None):
    try:
        got, a = capture_fs(name, getter, spec, user_fs)
        impl = 'err nothing-captured' if not got else ('ok ' + f2x(got[0]) if all(g == got[0] for g in got) else 'err mixed')
    except Exception as e:  # noqa
        a = axis_of(hist_input(spec, name))
        impl = 'err ' + common.err_kind(e)
    line = 'C15 fsdeliver %s.%s. %s %d %s %s' % (name, getter, a['unit'], a['dt'], f2x(a['fs']), '-' if user_fs is None else f2x(user_fs))
    return Case(line, impl, 'fs/%s/%s' % (name, getter) + ('/override' if user_fs is not None else ''),
                meta={'op': 'fs', 'name': name, 'getter': getter, 'spec': spec, 'user': user_fs}, nontrivial=a['unit'] != 's')


def judge_fs(c):
    m = c.meta
    try:
        got, a = capture_fs(m['name'], m['getter'], m['spec'], m['user'])
    except Exception as e:  # noqa
        return [Failure('fs/%s/%s/raises' % (m['name'], m['getter']), 'raised %r' % e, {'meta': m}, case=c)]
    want = m['user'] if m['user'] is not None else 10.0**12 / a['dt']
    bad = [g for g in got if abs(g - want) > 1e-12 * abs(want)]
    if bad or not got:
        return [Failure('fs/%s/%s/value' % (m['name'], m['getter']),
                        '%s.%s handed the algorithm layer Fs=%r; expected %s = %r Hz [unit=%s interval=%d ps]' % (
                            m['name'], m['getter'], bad[:2] or 'nothing', 'the caller\'s method[Fs]' if m['user'] is not None else '10^12/interval_ps',
                            want, a['unit'], a['dt']), {'meta': m}, case=c)]
    return []


def judge_concat(c):
    specs = c.meta['specs']
    TS = nt()
    ss = [mk_input(s) for s in specs]
    fails = []
    try:
        R = TS.concatenate_time_series(ss)
    except Exception as e:  # noqa
        return [Failure('concatenate_time_series/raises', 'raised %r' % e, {'meta': c.meta}, case=c)]
    want = np.concatenate([np.asarray(s.data) for s in ss], -1)
    a = axis_of(R)
    if not (np.asarray(R.data).shape == want.shape and (np.asarray(R.data) == want).all()):
        fails.append(Failure('concatenate_time_series/data', 'data are not the runs appended in time', {'meta': c.meta}, case=c))
    if a['n'] != sum(s.data.shape[-1] for s in ss) or a['tlen'] != a['n']:
        fails.append(Failure('concatenate_time_series/n', 'length is not the sum of the runs', {'meta': c.meta}, case=c))
    if a['dt'] != axis_of(ss[-1])['dt']:
        fails.append(Failure('concatenate_time_series/sampling_interval', 'interval %d ps differs from the runs\' %d ps' % (a['dt'], axis_of(ss[-1])['dt']),
                             {'meta': c.meta}, case=c))
    return fails


def judge_nifti(c):
    spec, r = c.meta['spec'], c.meta['roi']
    o = spec['opt']
    fails = []

    def fail(field, what):
        fails.append(Failure('time_series_from_file/%s/%s' % (o, field), 'time_series_from_file(%s): %s [files=%d rois=%d TR=%r]' % (
            o, what, len(spec['lens']), spec['nroi'], spec['tr']), {'meta': c.meta}, case=c))
    try:
        R, files = read_nifti(spec)
    except Exception as e:  # noqa
        fail('raises', 'raised %r' % e)
        return fails
    series = list(R) if isinstance(R, (list, tuple)) else [R]
    if len(series) != max(spec['nroi'], 1):
        fail('rois', 'returned %d series for %d ROIs' % (len(series), spec['nroi']))
        return fails
    S = series[r]
    a = axis_of(S)
    if a['dt'] != tr_ps(spec['tr']):
        fail('sampling_interval', 'interval %d ps, TR = %d ps' % (a['dt'], tr_ps(spec['tr'])))
    if a['n'] != sum(spec['lens']) or a['tlen'] != a['n']:
        fail('n', 'length %d, volumes in the files %d' % (a['n'], sum(spec['lens'])))
    if a['t0'] != 0:
        fail('t0', 'does not start at 0')
    want = expected_file_data(spec, files)[r]
    got = np.asarray(S.data, dtype=float)
    exact = o == 'plain'
    if got.shape != want.shape or not ((got == want).all() if exact else close(got, want, 1e-9)):
        fail('data', 'data differ from plain indexing of the volume at the requested coordinates' + (
            '' if exact else ' followed by the documented options (filter = FilterAnalyzer output on the raw voxel series, normalisation, average)'))
    if spec.get('verbose') and _LAST['said'] != len(files):
        fail('verbose', 'verbose=True reported %r files, %d were read' % (_LAST['said'], len(files)))
    return fails


def judge_nifti_options(c):
    """unknown `normalize` / `filter['method']` values are refused with ValueError (never silently ignored); the
    documented ones are accepted"""
    spec = c.meta['spec']
    o = spec['opt']
    try:
        read_nifti(spec)
        res = 'ok'
    except ValueError:
        res = 'err ValueError'
    except Exception as e:  # noqa
        res = 'err ' + common.err_kind(e)
    want = 'err ValueError' if o.startswith('bad-') else 'ok'
    if res != want:
        return [Failure('time_series_from_file/options/' + ('refusal' if o.startswith('bad-') else 'accepted'),
                        'time_series_from_file(normalize=%r, filter method=%r): %s, expected %s' % (opt_normalize(o), opt_filter(o), res, want),
                        {'meta': c.meta}, case=c)]
    return []


def judge_ctor(c):
    """the constructor on the property's terms: interval to the nearest ps, rate = 10^12/interval"""
    m = c.meta
    TS = nt()
    if m['op'] == 'mk':
        T = TS.TimeSeries(np.zeros(m['n']), sampling_interval=m['iv'], t0=m['t0'], time_unit=m['unit'])
        a = axis_of(T)
        x = Fr(m['iv']) * FACTOR[m['unit']]
        if abs(a['dt'] - x) > Fr(1, 2) + abs(x) / 2**52:
            return [Failure('ctor/interval-number/value', 'interval %r %s stored as %d ps' % (m['iv'], m['unit'], a['dt']), {'meta': m}, case=c)]
        Fs = float(Fr(10**12) / x)      # the rate belongs to the requested interval (sub-picosecond rounding of the stored interval is C02's clause)
        if abs(a['fs'] - Fs) > 1e-12 * Fs:
            return [Failure('ctor/interval-number/sampling_rate', 'rate %r for interval %d ps' % (a['fs'], a['dt']), {'meta': m}, case=c)]
    if m['op'] in ('mkT', 'rate'):
        t = TS.TimeArray(np.int64(m['dt']), time_unit='ps')
        t.convert_unit(m['unit'])
        T = TS.TimeSeries(np.zeros(3), sampling_interval=t, time_unit=m['unit'])
        a = axis_of(T)
        Fs = 10.0**12 / m['dt']
        if a['dt'] != m['dt'] or abs(a['fs'] - Fs) > 1e-12 * Fs:
            return [Failure('ctor/interval-time/value', 'time-object interval %d ps gives interval %d ps, rate %r' % (m['dt'], a['dt'], a['fs']), {'meta': m}, case=c)]
    return []


def judge_voxels(c):
    spec, r, run = c.meta['spec'], c.meta['roi'], c.meta['run']
    try:
        R, files = read_nifti(spec)
    except Exception as e:  # noqa
        return [Failure('time_series_from_file/voxels/raises', 'raised %r' % e, {'meta': c.meta}, case=c)]
    series = list(R) if isinstance(R, (list, tuple)) else [R]
    want = expected_file_data(spec, files)[r]
    got = np.asarray(series[r].data, dtype=float)
    if got.shape != want.shape or not (got == want).all():
        return [Failure('time_series_from_file/voxels/data', 'voxel rows differ from plain indexing at coords %s' % (spec['coords'][r],), {'meta': c.meta}, case=c)]
    return []


JUDGES = {'fs': judge_fs, 'output': judge_output, 'concat': judge_concat, 'nifti': judge_nifti, 'mk': judge_ctor, 'mkT': judge_ctor, 'rate': judge_ctor,
          'voxels': judge_voxels, 'readseq': judge_readseq, 'rt': judge_rt, 'nifti-options': judge_nifti_options, 'optseq': judge_optseq,
          'era': judge_era}


def oracle(rng, tier, seed, focus, cases=None):
    fails, n = [], 0
    import c15_r2
    import c15_r4
    import c15_r5
    for c in (cases or []):
        j = (JUDGES.get((c.meta or {}).get('op')) or c15_r2.R2_JUDGES.get((c.meta or {}).get('op')) or c15_r4.R4_JUDGES.get((c.meta or {}).get('op'))
             or c15_r5.R5_JUDGES.get((c.meta or {}).get('op')))
        if j:
            n += 1
            fails += j(c)
    # array-valued outputs: Fs plumbing (units s/ms/us, 1-d and 2-d)
    k = 0
    for i in range({'quick': 9, 'thorough': 60}[tier]):
        unit = UNITS[i % 3]
        iv = (BAD_IV[unit] + GOOD_IV[unit])[i // 3 % 5] if i < 15 else round(rng.uniform(0.01, 50.0), 3)
        nlen = SPEC_LENS[(i + seed) % len(SPEC_LENS)]
        spec = dict(unit=unit, iv=iv, t0=T0S[i % len(T0S)], shape=[3, nlen] if i % 4 else [nlen], seed=rng.randrange(10**6))
        if i % 3 == 2:      # recordings stored as integers / single precision / big-endian (same stored samples on both sides)
            spec['dtype'] = ['int16', 'float32', '>f8', 'int32'][(i // 3 + seed) % 4]
        fails += spectral_experiments(spec)
        k += 1
    npairs = nout = 0
    hist_specs = [dict(unit=UNITS[(seed + j) % 3], iv=GOOD_IV[UNITS[(seed + j) % 3]][j % 3], t0=T0S[j % len(T0S)], seed=rng.randrange(10**6))
                  for j in range({'quick': 1, 'thorough': 4}[tier])]
    for j, hs in enumerate(hist_specs):
        for name in ALL_ANALYZERS:
            hs2 = dict(hs, unit=UNITS[(seed + j + ALL_ANALYZERS.index(name)) % 3])
            hs2['iv'] = GOOD_IV[hs2['unit']][(j + ALL_ANALYZERS.index(name)) % 3]
            hs2['n'] = SPEC_LENS[(seed + j + ALL_ANALYZERS.index(name)) % len(SPEC_LENS)]
            fl, a, b = history_experiments(hs2, name, {'quick': 150, 'thorough': 10**6}[tier], rng)
            fails += fl
            npairs += a
            nout += b
    # histories of reads with normalisation / averaging / ROI lists after in-place modifications (oracle only)
    nseq = 0
    for i in range({'quick': 12, 'thorough': 120}[tier]):
        fails += judge_readseq_spec(gen_readseq_spec(rng, i, options=True))
        nseq += 1
    # round 2: failure paths (L7) and aliasing (L8) on every analyzer class, concatenation and the reader
    r2f, r2stats = c15_r2.r2_oracle(rng, tier, seed)
    fails += r2f
    # round 4: long recordings with one huge transient (L9 / L10, oracle only), band edges ON the DFT grid (L3)
    import c15_r4
    r4f, r4stats = c15_r4.r4_oracle(rng, tier, seed)
    fails += r4f
    # round 5: runs / files of mixed dtypes (L1 across runs); two live objects of one class that differ only in rate / length / unit / t0,
    # this process A-then-B vs a fresh interpreter B-then-A + direct algorithm calls (L2 across objects); the reader twice with one filter dict
    import c15_r5
    r5f, r5stats = c15_r5.r5_oracle(rng, tier, seed)
    fails += r5f
    r2stats = dict(r2stats, r4=r4stats, r5=r5stats)
    for f in fails:
        f.replay['key'] = f.key
    return fails, {'r2': r2stats, 'judged_cases': n, 'read_histories': nseq, 'spectral_inputs': k, 'history_pairs': npairs, 'history_outputs': nout, 'failed': len(fails), 'focus': len(focus)}


def replay(d):
    m = d['meta']
    op = m['op']
    c = Case('', '', '', meta=m)
    if op == 'spectral':
        fs = spectral_experiments(m['spec'])
    elif op == 'readseq':
        fs = judge_readseq_spec(m['spec'])
    elif op == 'history':
        fs = history_experiments(m['spec'], m['name'], 10**6, common.make_rng(PID, 0, 'replay'))[0]
    elif op in ('failure', 'alias', 'concat-alias', 'reader-failure', 'complex'):
        import c15_r2
        fs = c15_r2.r2_replay(m)
    elif op in ('large', 'ongrid', 'lopsided', 'in_ts'):
        import c15_r4
        fs = c15_r4.r4_replay(m)
    elif op in ('concat-dtype', 'reader-dtype', 'cross', 'cross-all', 'reader-twice'):
        import c15_r5
        fs = c15_r5.r5_replay(m)
    elif op in ('firhist', 'concatdt'):
        import c15_r5
        fs = c15_r5.R5_JUDGES[op](c)
    elif op == 'band':
        import c15_r4
        fs = c15_r4.judge_band(c)
    elif op in ('objhist', 'seedrows', 'shiftsrc'):
        import c15_r2
        fs = c15_r2.R2_JUDGES[op](c)
    else:
        fs = JUDGES[op](c)
    want = d.get('key')
    for f in fs:
        if want is None or f.key == want:
            return f
    return fs[0] if fs and want is None else None
