"""Exact STRUCTURED covariance sequences for C10 / C11 (wave 6: "structured inputs inside the quantifier that make an
intermediate quantity of the recursion exactly zero / exactly equal").

Everything is built in `fractions.Fraction` from dyadic parameters, so that (whenever the bit budget allows — checked, and
recorded in the case) every lag is exactly representable in binary64: an exactly-zero partial correlation IS an exact zero
in the routine under test, not 1e-17 of round-off.

scalar sequences     `scalar_from_pacf(kappas, r0)` — the autocovariance r(0..P) whose partial correlations are the given
                     dyadic numbers (ANY zero pattern: leading zeros, intermediate zeros, trailing zeros, all zero), by
                     running the Levinson step-up recursion forwards; with it the exact order-P coefficients and the
                     innovation variance.
seasonal blocks      `seasonal_block(B, G, s, P)` — x(t) = B x(t-s) + e(t): R(sk) = B^k G, every other lag 0.
multichannel         `direct_sum(blocks, M)` — R(k) = M·blockdiag(R_j(k))·M^T for an integer unimodular M (M^{-1} is an
                     integer matrix, so the true coefficients M·blockdiag(A_j(k))·M^{-1} stay dyadic).
The TRUE order-P prediction coefficients (x(t) = sum_k C(k) x(t-k) + e; the recursion returns A(k) = -C(k)) and the
innovation covariance come with every sequence: they are what "exact recovery" is judged against.
"""
from fractions import Fraction as Fr

import numpy as np


def fzeros(n, m=None):
    return [[Fr(0)] * (m or n) for _ in range(n)]


def feye(n):
    return [[Fr(int(i == j)) for j in range(n)] for i in range(n)]


def fmm(a, b):
    return [[sum((a[i][l] * b[l][j] for l in range(len(b))), Fr(0)) for j in range(len(b[0]))] for i in range(len(a))]


def fadd(a, b):
    return [[x + y for x, y in zip(ra, rb)] for ra, rb in zip(a, b)]


def fsub(a, b):
    return [[x - y for x, y in zip(ra, rb)] for ra, rb in zip(a, b)]


def fT(a):
    return [list(c) for c in zip(*a)]


def fneg(a):
    return [[-x for x in r] for r in a]


def fabsmax(a):
    return max(abs(v) for r in a for v in r)


def to_frac(m):
    """binary64 values are rationals"""
    return [[Fr(float(v)) for v in row] for row in np.asarray(m, float)]


def to_float(ms):
    return np.array([[[float(v) for v in row] for row in m] for m in ms], float)


def is_exact(ms):
    return all(Fr(float(v)) == v for m in ms for row in m for v in row)


def dyadic_ints(ms):
    """(den, ints): every entry of the float stack = int / den with den a power of two (for the rational driver)"""
    fr = [Fr(float(v)) for v in np.asarray(ms, float).reshape(-1)]
    den = 1
    for v in fr:
        den = max(den, v.denominator)
    return den, [int(v * den) for v in fr]


# ------------------------------------------------------------------ scalar sequences with a prescribed PACF
def scalar_from_pacf(kappas, r0=Fr(1)):
    """r(0..P), coefficients c(1..P) (x(t) = sum c_k x(t-k) + e) and sigma for the partial correlations `kappas`"""
    r = [Fr(r0)]
    c = []
    sig = Fr(r0)
    for kap in kappas:
        kap = Fr(kap)
        p = len(c)
        r.append(sum((c[i] * r[p - i] for i in range(p)), Fr(0)) + kap * sig)
        c = [c[i] - kap * c[p - 1 - i] for i in range(p)] + [kap]
        sig = sig * (1 - kap * kap)
    return r, c, sig


def pacf_pattern(nrng, P, kind):
    """a dyadic partial-correlation sequence with the zero pattern `kind`"""
    nz = lambda: Fr(int(nrng.choice([-3, -2, -1, 1, 2, 3])), int(nrng.choice([4, 8])))
    k = [Fr(0)] * P
    if kind == 'white':
        pass
    elif kind.startswith('season'):            # only lag s
        s = int(kind[6:])
        if s <= P:
            k[s - 1] = nz()
    elif kind == 'leading-zero':               # kappa_1 = 0 (and possibly kappa_2), the rest generic
        z = 1 + int(nrng.randint(0, 2)) if P >= 3 else 1
        k = [Fr(0) if i < z else nz() for i in range(P)]
        if P == 1:
            k = [Fr(0)]
    elif kind == 'intermediate-zero':          # a zero strictly between two non-zero ones
        k = [nz() for _ in range(P)]
        if P >= 3:
            j = int(nrng.randint(1, P - 1))
            k[j] = Fr(0)
        elif P == 2:
            k[0] = Fr(0)
    elif kind == 'trailing-zero':              # true order lower than the fitted one
        q = int(nrng.randint(1, P)) if P >= 2 else 0
        k = [nz() if i < q else Fr(0) for i in range(P)]
    elif kind == 'lags-1-4':                   # only the partial correlations at lags 1 and 4
        k[0] = nz()
        if P >= 4:
            k[3] = nz()
    elif kind == 'alternate':
        k = [nz() if i % 2 else Fr(0) for i in range(P)]
    else:
        raise ValueError(kind)
    return k


SCALAR_KINDS = ['white', 'season2', 'season3', 'season4', 'leading-zero', 'intermediate-zero', 'trailing-zero', 'lags-1-4', 'alternate']


def scalar_block(nrng, P, kind):
    """({'R': [1x1 matrices], 'C': [1x1], 'V': 1x1}) for one channel"""
    for attempt in range(6):
        kap = pacf_pattern(nrng, P, kind)
        r0 = Fr(int(nrng.choice([1, 2, 3, 4])), int(nrng.choice([1, 2])))
        r, c, sig = scalar_from_pacf(kap, r0)
        if is_exact([[[v]] for v in r]):
            break
    return {'R': [[[v]] for v in r], 'C': [[[v]] for v in c], 'V': [[sig]], 'kappa': kap}


# ------------------------------------------------------------------ seasonal VAR blocks
def _pd(m, margin=1e-3):
    a = np.array([[float(v) for v in row] for row in m])
    return np.linalg.eigvalsh((a + a.T) / 2).min() > margin


def seasonal_parts(nrng, nc, shape):
    """dyadic B, G with G and V = G - B G B^T positive definite; `shape` structures B (and G)"""
    for attempt in range(400):
        den = 8 * 2 ** (attempt // 25)          # still dyadic; smaller coefficients when no stable draw turns up
        B = [[Fr(int(nrng.randint(-3, 4)), den) for _ in range(nc)] for _ in range(nc)]
        L = [[Fr(int(nrng.randint(-3, 4)), 4) if j < i else Fr(int(i == j)) for j in range(nc)] for i in range(nc)]
        if shape == 'diagonal':
            B = [[B[i][j] if i == j else Fr(0) for j in range(nc)] for i in range(nc)]
        elif shape == 'triangular':
            B = [[B[i][j] if j <= i else Fr(0) for j in range(nc)] for i in range(nc)]
        elif shape == 'block-diagonal' and nc >= 2:
            h = nc // 2
            same = lambda i, j: (i < h) == (j < h)
            B = [[B[i][j] if same(i, j) else Fr(0) for j in range(nc)] for i in range(nc)]
            L = [[L[i][j] if same(i, j) else Fr(0) for j in range(nc)] for i in range(nc)]
        elif shape == 'one-white':             # the last channel is white and independent of the others
            w = nc - 1
            B = [[Fr(0) if w in (i, j) else B[i][j] for j in range(nc)] for i in range(nc)]
            L = [[Fr(int(i == j)) if w in (i, j) else L[i][j] for j in range(nc)] for i in range(nc)]
        elif shape == 'identical':             # independent channels with the same spectrum: R(k) = r(k)·I
            b = Fr(int(nrng.choice([-3, -2, -1, 1, 2, 3])), 8)
            B = [[b if i == j else Fr(0) for j in range(nc)] for i in range(nc)]
            L = feye(nc)
        elif shape == 'rank-one' and nc >= 2:  # singular B: the reflection numerator is a singular matrix
            u = [Fr(int(nrng.randint(-2, 3)), den // 2) for _ in range(nc)]
            v = [Fr(int(nrng.randint(-2, 3)), 2) for _ in range(nc)]
            B = [[u[i] * v[j] for j in range(nc)] for i in range(nc)]
        elif shape == 'nilpotent' and nc >= 2:  # B^2 = 0: R(2s) vanishes as well
            B = [[B[i][j] if j < i and i >= nc // 2 > j else Fr(0) for j in range(nc)] for i in range(nc)]
        G = fmm(L, fT(L))
        if fabsmax(B) == 0:
            continue
        V = fsub(G, fmm(fmm(B, G), fT(B)))
        if _pd(G) and _pd(V, 0.05):
            return B, G, V
    raise RuntimeError('no stable seasonal block found')


SEASON_SHAPES = ['dense', 'diagonal', 'triangular', 'block-diagonal', 'one-white', 'identical', 'rank-one', 'nilpotent']


def seasonal_block(B, G, V, s, P):
    """x(t) = B x(t-s) + e(t): R(sk) = B^k G, all other lags zero; C(s) = B (when s <= P)"""
    nc = len(B)
    R = [G] + [fzeros(nc) for _ in range(P)]
    for k in range(s, P + 1, s):
        R[k] = fmm(B, R[k - s])
    C = [fzeros(nc) for _ in range(P)]
    if s <= P:
        C[s - 1] = B
    return {'R': R, 'C': C, 'V': V if s <= P else G}


# ------------------------------------------------------------------ multichannel: direct sums, mixed by a unimodular matrix
def unimodular(nrng, n, kind):
    """integer matrix with determinant +-1 and its (integer) inverse"""
    M, Mi = feye(n), feye(n)
    if kind == 'identity' or n == 1:
        return M, Mi
    if kind == 'permutation':
        p = [int(t) for t in nrng.permutation(n)]
        M = [[Fr(int(p[i] == j)) for j in range(n)] for i in range(n)]
        return M, fT(M)
    for _ in range(int(nrng.randint(1, 2 * n))):      # product of elementary shears: row i += c * row j
        i, j = [int(t) for t in nrng.permutation(n)[:2]]
        c = Fr(int(nrng.choice([-1, 1])))
        E, Ei = feye(n), feye(n)
        E[i][j], Ei[i][j] = c, -c
        M, Mi = fmm(E, M), fmm(Mi, Ei)
    return M, Mi


def direct_sum(blocks, M=None, Mi=None):
    sizes = [len(b['V']) for b in blocks]
    n = sum(sizes)
    P = len(blocks[0]['C'])
    offs = np.cumsum([0] + sizes)

    def bd(ms):
        out = fzeros(n)
        for m, o in zip(ms, offs):
            for i in range(len(m)):
                for j in range(len(m)):
                    out[o + i][o + j] = m[i][j]
        return out
    R = [bd([b['R'][k] for b in blocks]) for k in range(P + 1)]
    C = [bd([b['C'][k] for b in blocks]) for k in range(P)]
    V = bd([b['V'] for b in blocks])
    if M is not None:
        R = [fmm(fmm(M, r), fT(M)) for r in R]
        C = [fmm(fmm(M, c), Mi) for c in C]
        V = fmm(fmm(M, V), fT(M))
    return {'R': R, 'C': C, 'V': V}


def structured_sequence(nrng, nc, P, family):
    """one exact covariance sequence R(0..P) of a stable process with `nc` channels; returns the dict of `direct_sum` plus a
    description.  family: 'seasonal' (one block x(t) = B x(t-s) + e), 'sum' (direct sum of scalar PACF-pattern sequences,
    seasonal blocks with different seasons and white channels, mixed by a unimodular matrix), 'scalar' (nc = 1)"""
    if family == 'seasonal':
        s = int(nrng.randint(1, P + 2)) if P >= 2 else int(nrng.randint(1, 3))      # also s = P + 1: white up to lag P
        if nrng.rand() < 0.6 and P >= 2:
            s = int(nrng.randint(2, min(P, 4) + 1))
        shape = SEASON_SHAPES[int(nrng.randint(0, len(SEASON_SHAPES)))]
        if nc == 1:
            shape = 'dense'
        B, G, V = seasonal_parts(nrng, nc, shape)
        d = seasonal_block(B, G, V, s, P)
        d['desc'] = 'seasonal s=%d %s' % (s, shape)
        return d
    if family == 'scalar' or nc == 1:
        kind = SCALAR_KINDS[int(nrng.randint(0, len(SCALAR_KINDS)))]
        d = scalar_block(nrng, P, kind)
        d['desc'] = 'pacf ' + kind
        return d
    # direct sum
    blocks, left, desc = [], nc, []
    while left > 0:
        t = int(nrng.randint(0, 3))
        if t == 0 and left >= 2:
            sz = 2
            s = int(nrng.randint(1, min(P, 4) + 1))
            B, G, V = seasonal_parts(nrng, sz, ['dense', 'triangular', 'rank-one'][int(nrng.randint(0, 3))])
            blocks.append(seasonal_block(B, G, V, s, P))
            desc.append('S%d' % s)
        else:
            sz = 1
            kind = SCALAR_KINDS[int(nrng.randint(0, len(SCALAR_KINDS)))]
            if desc and desc[-1].startswith('pacf') and nrng.rand() < 0.3:       # two channels with the SAME spectrum
                blocks.append(dict(blocks[-1]))
                desc.append('same')
            else:
                blocks.append(scalar_block(nrng, P, kind))
                desc.append('pacf:' + kind)
        left -= sz
    mk = ['identity', 'permutation', 'shear'][int(nrng.randint(0, 3))]
    M, Mi = unimodular(nrng, nc, mk)
    d = direct_sum(blocks, M, Mi)
    d['desc'] = 'sum[%s] %s' % (','.join(desc), mk)
    return d


def zero_stuffed(nrng, x, s):
    """the recording upsampled by zero insertion: samples at t % s != 0 are exactly zero, so the lagged averages at every
    lag that is not a multiple of s vanish EXACTLY (each product has a zero factor)"""
    nc, N = x.shape
    y = np.zeros((nc, N * s))
    y[:, ::s] = x
    return y


def yw_residual_exact(R, a, sigma):
    """max |sum_{i=0..P} A(i) R(k-i)| over k = 1..P and |sigma - sum_i A(i) R(-i)|, in exact rational arithmetic on the
    binary64 numbers handed in / returned (R: (P+1, nc, nc) floats, a: (P, nc, nc) floats)"""
    P, nc = len(a), np.asarray(R).shape[1]
    Rf = [to_frac(r) for r in R]
    A = [feye(nc)] + [to_frac(ai) for ai in a]
    Rl = lambda k: Rf[k] if k >= 0 else fT(Rf[-k])
    worst = Fr(0)
    for k in range(1, P + 1):
        acc = fzeros(nc)
        for i in range(P + 1):
            acc = fadd(acc, fmm(A[i], Rl(k - i)))
        worst = max(worst, fabsmax(acc))
    acc = fzeros(nc)
    for i in range(P + 1):
        acc = fadd(acc, fmm(A[i], Rl(-i)))
    return float(worst), float(fabsmax(fsub(acc, to_frac(sigma))))
