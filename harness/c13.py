"""C13 — analyzer results do not depend on the order in which they are asked for.

Tie.  (1) translate_c13.py regenerates the per-class effect tables from the source; Props/C13 decides
`NoInterference` on them.  (2) Correspondence: for every class x parameter setting, every history of
reads (quick: the empty history, all ordered pairs incl. repeats; thorough: + all ordered triples of
distinct results + sampled permutations) is run on the REAL analyzer, observed from outside
(getter-invocation log, slot / cached-result / input hashes around every single read), and sent to
the model driver, which runs the OneTime machine on the generated table with a symbolic semantics.
Agreement (asymmetric, see `cmp_hist`): every getter the implementation ran, every slot it changed,
every cached result / input it rewrote must be predicted by the table, and wherever the model says
"equal to the fresh value for every F" the implementation must be bitwise equal to the fresh value.
Oracle (independent of Lean): each read compared bitwise with the same result read first on a freshly
built analyzer; identity on repeated reads; invocation counts; construction runs no getter; no
cached result or input changes under a later read.
"""
import itertools, json
import common
from common import Case, Failure
import onetime_common as oc
import onetime_sessions as OS

PID = 'C13'
LEAN_TARGETS = ['Nitime.Props.C13']
RULE = ('every class using the one-time-property descriptor x 1-4 parameter settings (tiny seeded inputs); histories = empty, '
        'all ordered pairs of public results incl. repeats (quick), + all ordered triples of distinct public results and '
        'sampled full permutations (thorough); one case = one history on a freshly built object; distinct = distinct '
        '(class, flags, history) line; non-trivial = history with at least two reads; PLUS process-level sessions (harness/onetime_sessions.py): '
        'per setting 5-6 sessions of 2-6 live objects (bare ResetMixin / BaseAnalyzer, the class on two inputs, a user subclass with its own '
        'one-time result, a sibling analyzer) constructed, read, reset, re-targeted in structured and random orders, each in its own fresh '
        'process; two-/three-analyzer sessions over the classes taking `method` x {None, own, shared dict} x different sampling rates')
ASSUMPTIONS = ['results are compared through canonical bytes (dtype, shape, buffer; TimeSeries: data + sampling interval + t0 + unit; dicts by sorted key)',
               'two fresh builds of the same setting give bitwise equal results (checked per result; results that are not reproducible or that raise on a fresh object are counted as unavailable, not compared)']
TRUSTED_EXTRA = ['harness/onetime_server.py: a forked child of a process that has only imported nitime stands for a fresh python process',
                 'harness/translate_c13.py: the recognised getter fragment (documented in its header); effects it cannot see are caught only when the run-time observation exercises them',
                 'F (the numerical body of every getter) is uninterpreted in the model: the theorems speak about the memoisation / effect structure only',
                 'observation from outside: hashes of instance-dict entries, of the slots named in the table and of the input series; aliasing invisible to these hashes is not seen']


# ------------------------------------------------------------------ running one history
class Ctx:
    """per (class, setting): table, builder, fresh values"""

    def __init__(self, cls, label, build, table):
        self.cls, self.label, self.build, self.table = cls, label, build, table
        self.fresh = {}
        self.unavailable = {}
        self.gid = {g: i for i, g in enumerate(table['getters'])}
        self.sid = {s: i for i, s in enumerate(table['slots'])}
        obj, _ = build(0)
        self.cfg = oc.cfg_of(obj, table)
        self.public = [g for g in table['getters'] if not g.startswith('_')]
        # getters that raise on a freshly built object (sent to the model, whose getters may raise too)
        for g in table['getters']:
            self.fresh_hash(g)
        self.raising = sorted(self.gid[g] for g, v in self.unavailable.items() if str(v).startswith('err'))

    def fresh_hash(self, g, variant=0):
        k = g if variant == 0 else (g, variant)
        if k not in self.fresh:
            with oc.quiet():
                a, wa = self.build(variant)
                b, wb = self.build(variant)
            sa = oc.observed_read(a, self.table, wa, g)
            sb = oc.observed_read(b, self.table, wb, g)
            self.fresh[k] = sa.value_hash
            if variant == 0:
                if sa.err:
                    self.unavailable[g] = sa.value_hash
                elif sa.value_hash != sb.value_hash:
                    self.unavailable[g] = 'not-reproducible'
        return self.fresh[k]


def run_history(ctx, hist):
    """-> (ctor_fired, [Step]) on a freshly built object"""
    del oc.LOG[:]
    obj, watched = ctx.build(0)
    ctor = sorted({n for (i, n) in oc.LOG if i == id(obj)} | {g for g in ctx.table['getters'] if g in obj.__dict__})
    steps = []
    for g in hist:
        steps.append(oc.observed_read(obj, ctx.table, watched, g))
    return ctor, steps


def run_history2(ctx, seq):
    """two live objects of the class (inputs: variant 0 and variant 1), reads interleaved as `seq` = [(obj, getter)]"""
    del oc.LOG[:]
    with oc.quiet():
        objs = [ctx.build(0), ctx.build(1)]
    steps = []
    for (o, g) in seq:
        st = oc.observed_read(objs[o][0], ctx.table, objs[o][1], g)
        # the other object must not be touched either
        steps.append(st)
    return steps


def il(ids):
    ids = sorted(set(ids))
    return ','.join(str(i) for i in ids) if ids else '-'


def impl_string(ctx, ctor, steps, variants=None):
    if ctor:
        return 'ctor-computes=' + ','.join(ctor)
    recs = []
    for i, st in enumerate(steps):
        fresh = ctx.fresh_hash(st.g, variants[i] if variants else 0)
        same = '1' if st.value_hash == fresh or st.g in ctx.unavailable and ctx.unavailable[st.g] == 'not-reproducible' else '0'
        if st.err:
            same = 'e' if same == '1' else 'E'      # raised: like the fresh read / unlike it
        pw = [ctx.sid[s] for s in st.pw] + [900 + i for i, _ in enumerate(st.unknown)]
        # a getter that raises stores nothing and runs again on the next read; the model has no
        # exceptions (F is total), so the raising getter itself is not counted as having run
        fired = [f for f in st.fired if not (st.err and (f == st.g or ctx.gid[f] in ctx.raising))]
        recs.append('%d:f=%s:w=%s:c=%s:i=%d:s=%s' % (ctx.gid[st.g], il(ctx.gid[f] for f in fired), il(pw),
                                                      il(ctx.gid[c] for c in st.cl), 1 if st.inp else 0, same))
    return '|'.join(recs) if recs else '-'


def parse_hist(s):
    if s == '-':
        return []
    out = []
    for rec in s.split('|'):
        parts = rec.split(':')
        d = {'g': int(parts[0])}
        for p in parts[1:]:
            k, v = p.split('=')
            d[k] = v if k == 's' else (set() if v == '-' else {int(x) for x in v.split(',')}) if k != 'i' else int(v)
        out.append(d)
    return out


def cmp_hist(impl, model):
    """the table must cover what the implementation did; model 'same for every F' must be observed"""
    try:
        a, b = parse_hist(impl), parse_hist(model)
    except Exception:
        return False
    if len(a) != len(b):
        return False
    for x, y in zip(a, b):
        if x['g'] != y['g'] or not x['f'] <= y['f'] or not x['w'] <= y['w'] or not x['c'] <= y['c'] or x['i'] > y['i']:
            return False
        if y['s'] == '1' and x['s'] != '1':
            return False
        if y['s'] == 'r' and x['s'] not in ('e', 'E'):     # the model's getter raises: so must the real one
            return False
    return True


def histories(ctx, rng, tier):
    pub = ctx.public
    H = [()]
    H += [(a,) for a in pub]
    H += [(a, b) for a in pub for b in pub]
    if tier == 'thorough':
        tri = [t for t in itertools.permutations(pub, 3)]
        if len(tri) > 400:
            tri = rng.sample(tri, 400)
        H += tri
        for _ in range(12):
            p = list(pub)
            rng.shuffle(p)
            H.append(tuple(p + [p[0]]))
    else:
        # a few triples and one permutation also in the quick tier
        tri = [t for t in itertools.permutations(pub, 3)]
        H += rng.sample(tri, min(len(tri), 12))
        p = list(pub)
        rng.shuffle(p)
        H.append(tuple(p))
    return H


_CTX = {}


def contexts(seed, tier):
    key = (seed, tier)
    if key not in _CTX:
        _CTX[key] = [Ctx(*x) for x in oc.prepare(seed, tier)]
    return _CTX[key]


def cases(rng, tier, seed):
    out = []
    for ctx in contexts(seed, tier):
        # the model's names must be the translator's names
        names = 'getters=%s;slots=%s;flags=%s' % (','.join(ctx.table['getters']), ','.join(ctx.table['slots']), ','.join(ctx.table['flags']))
        out.append(Case('C13 names %s' % ctx.cls, names, 'table/%s' % ctx.cls, nontrivial=False))
        for h in histories(ctx, rng, tier):
            ctor, steps = run_history(ctx, h)
            impl = impl_string(ctx, ctor, steps)
            line = 'C13 hist %s %s %s %s' % (ctx.cls, il(ctx.cfg), ','.join(str(ctx.gid[g]) for g in h) if h else '-', il(ctx.raising))
            out.append(Case(line, impl, 'hist/%s/%s' % (ctx.cls, ctx.label), cmp=cmp_hist,
                            meta={'cls': ctx.cls, 'label': ctx.label, 'hist': list(h), 'ctor': ctor,
                                  'steps': [{'g': s.g, 'h': s.value_hash, 'fired': s.fired, 'cl': s.cl, 'inp': s.inp,
                                             'was_cached': s.was_cached, 'same_obj': s.same_obj_as_cached, 'ret_stored': s.returned_is_stored} for s in steps]},
                            nontrivial=len(h) >= 2))
        # two live objects of the same class on different inputs, reads interleaved (state shared between
        # instances — class attributes, module-level caches — shows as a value that is not the object's own)
        for seq in interleavings(ctx, rng, tier):
            steps = run_history2(ctx, seq)
            vs = [o for (o, _) in seq]
            impl = impl_string(ctx, [], steps, vs)
            line = 'C13 hist2 %s %s %s %s %s' % (ctx.cls, il(ctx.cfg), ','.join(str(o) for o in vs), ','.join(str(ctx.gid[g]) for (_, g) in seq), il(ctx.raising))
            out.append(Case(line, impl, 'hist2/%s/%s' % (ctx.cls, ctx.label), cmp=cmp_hist,
                            meta={'cls': ctx.cls, 'label': ctx.label, 'hist': [g for (_, g) in seq], 'objs': vs, 'ctor': [],
                                  'steps': [{'g': s.g, 'h': s.value_hash, 'fired': s.fired, 'cl': s.cl, 'inp': s.inp,
                                             'was_cached': s.was_cached, 'same_obj': s.same_obj_as_cached, 'ret_stored': s.returned_is_stored} for s in steps]},
                            nontrivial=True))
    # PROCESS-level sessions: several live objects of base / derived / user / sibling classes constructed, read, reset
    # and re-targeted in every order, each in its own fresh process, every read compared with a fresh object in
    # ANOTHER fresh process; two-analyzer sessions (method=None / own / one shared dict, different sampling rates)
    out += OS.build_cases(PID, 'c13', seed, tier, rng)
    return out


def interleavings(ctx, rng, tier):
    pub = ctx.public
    S = []
    S.append([(o, g) for g in pub for o in (0, 1)])                      # A.g1 B.g1 A.g2 B.g2 …
    S.append([(o, g) for g in reversed(pub) for o in (1, 0)])
    S.append([(0, g) for g in pub] + [(1, g) for g in pub] + [(0, g) for g in pub])   # A all, B all, A again
    for a in pub:                                                          # B's result between A's dependencies
        S.append([(0, a), (1, a), (1, pub[-1]), (0, pub[-1]), (0, a), (1, a)])
    n = 20 if tier == 'thorough' else 4
    for _ in range(n):
        seq = [(o, g) for g in pub for o in (0, 1)]
        rng.shuffle(seq)
        S.append(seq)
    return S


# ------------------------------------------------------------------ oracle
def judge(ctx, hist, ctor, steps, objs=None):
    """property failures of one observed history: [(key, what)]; `objs`: which of two live objects each read was on"""
    out = []
    C = ctx.cls
    for g in ctor:
        out.append(('%s/%s/computed-at-construction' % (C, g), 'building %s(%s) already ran / stored `%s`' % (C, ctx.label, g)))
    seen = []
    for i, st in enumerate(steps):
        g = st['g']
        fresh = ctx.fresh_hash(g, objs[i] if objs else 0)
        una = ctx.unavailable.get(g)
        if una != 'not-reproducible' and st['h'] != fresh:
            out.append(('%s/%s/differs-from-fresh' % (C, g),
                        '%s(%s): `%s` read after %s differs from the value a fresh analyzer returns when it is read first%s'
                        % (C, ctx.label, g, seen, ' (fresh: %s, here: %s)' % (fresh, st['h']) if 'err' in fresh + st['h'] else '')))
        for k in st['cl']:
            out.append(('%s/%s/rewritten-by-reading/%s' % (C, k, g),
                        '%s(%s): reading `%s` changed the already handed-out result `%s` in place' % (C, ctx.label, g, k)))
        if st['inp']:
            out.append(('%s/input/rewritten-by-reading/%s' % (C, g), '%s(%s): reading `%s` changed the input series' % (C, ctx.label, g)))
        if st['was_cached'] and (g in st['fired'] or not st['same_obj']):
            out.append(('%s/%s/recomputed-on-repeated-read' % (C, g),
                        '%s(%s): a repeated read of `%s` ran the getter again / returned another object' % (C, ctx.label, g)))
        if not st.get('ret_stored', True):
            out.append(('%s/%s/returned-object-is-not-the-stored-one' % (C, g),
                        '%s(%s): the object returned by the first read of `%s` is not the object stored for later reads' % (C, ctx.label, g)))
        if len(st['fired']) != len(set(st['fired'])):
            out.append(('%s/%s/computed-more-than-once' % (C, g), '%s(%s): one read of `%s` ran a getter twice: %s' % (C, ctx.label, g, st['fired'])))
        seen.append(g)
    return out


def shrink(ctx, hist, key):
    """shortest sub-history (same last read) that still shows `key`"""
    best = list(hist)
    last = hist[-1]
    pre = list(hist[:-1])
    for r in range(0, len(pre)):
        for sub in itertools.combinations(range(len(pre)), r):
            h = [pre[i] for i in sub] + [last]
            ctor, steps = run_history(ctx, h)
            obs = [{'g': s.g, 'h': s.value_hash, 'fired': s.fired, 'cl': s.cl, 'inp': s.inp,
                    'was_cached': s.was_cached, 'same_obj': s.same_obj_as_cached, 'ret_stored': s.returned_is_stored} for s in steps]
            if any(k == key for k, _ in judge(ctx, h, ctor, obs)):
                return h
    return best


def oracle(rng, tier, seed, focus, cases):
    fails, seen, culprits = [], {}, {}
    ctxs = {(c.cls, c.label): c for c in contexts(seed, tier)}
    n_hist = n_reads = 0
    for c in cases:
        m = c.meta
        if not m or 'session' in m:
            continue
        ctx = ctxs[(m['cls'], m['label'])]
        n_hist += 1
        n_reads += len(m['steps'])
        for key, what in judge(ctx, m['hist'], m['ctor'], m['steps'], m.get('objs')):
            if m.get('objs'):
                key = key + '/interleaved-with-second-object'
                what = what + ' [two live %s objects on different inputs, reads interleaved: objects %s, results %s]' % (m['cls'], m['objs'], m['hist'])
                fails.append(Failure(key, what, {'cls': m['cls'], 'label': m['label'], 'hist': m['hist'], 'objs': m['objs'], 'key': key, 'seed': seed}, case=c))
                continue
            if key.endswith('/differs-from-fresh'):
                # name the culprit: the reads of the shortest sub-history that still shows the difference
                idx = max(i for i, s in enumerate(m['steps']) if s['g'] == key.split('/')[1])
                hh = tuple(m['hist'][:idx + 1])
                ck = (m['label'], hh, key)
                if ck not in culprits:
                    culprits[ck] = shrink(ctx, list(hh), key)
                key = key + '/after/' + '+'.join(culprits[ck][:-1])
            k2 = (key, m['label'])
            first = k2 not in seen
            if first:
                h = culprits[ck] if '/after/' in key else (shrink(ctx, m['hist'], key) if len(m['hist']) > 1 else m['hist'])
                seen[k2] = {'cls': m['cls'], 'label': m['label'], 'hist': h, 'key': key, 'seed': seed}
                what = what + ' [minimal history: %s]' % h
            # one Failure per case so that the disagreement on that very case is explained
            fails.append(Failure(key, what, seen[k2], case=c))
    # results must not alias the input (data / time axis) nor unrelated results
    n_mut = 0
    for ctx in contexts(seed, tier):
        for g in ctx.public:
            res, n = result_mutation(ctx, g)
            n_mut += n
            for key, what in res:
                fails.append(Failure(key, what, {'cls': ctx.cls, 'label': ctx.label, 'mutate': g, 'key': key, 'seed': seed}))
    una = {'%s/%s' % (c.cls, c.label): dict(c.unavailable) for c in contexts(seed, tier) if c.unavailable}
    # the sessions; and: the in-process "fresh analyzer read first" must itself be what a fresh PROCESS returns (the
    # harness process has by now built and reset hundreds of objects of every class)
    sf, sstats = OS.oracle_sessions(PID, seed, tier, cases)
    fails += sf
    refs = OS._STATE.get((PID, seed, tier)) or OS.Refs(seed, tier)
    refs.need([(c.cls, c.label, 'p', 0) for c in contexts(seed, tier) if c.cls not in ('TimeSeries',)])
    n_proc = 0
    for ctx in contexts(seed, tier):
        if ctx.cls == 'TimeSeries':
            continue
        ref = refs.get((ctx.cls, ctx.label, 'p', 0))['getters']
        for g in ctx.table['getters']:
            n_proc += 1
            if ctx.unavailable.get(g) == 'not-reproducible' or ref.get(g) == 'nonrepro':
                continue
            if ctx.fresh.get(g) != ref.get(g):
                # two processes: confirm up to ~1e-9 of the magnitude (FFT/BLAS kernels pick their SIMD path by alignment)
                with oc.quiet():
                    o2, _ = ctx.build(0)
                v2, e2 = oc.read_result(o2, g)
                if e2 is None and oc.hv_coarse(v2) == refs.coarse((ctx.cls, ctx.label, 'p', 0), g):
                    continue
                key = '%s/%s/fresh-object-differs-from-fresh-process' % (ctx.cls, g)
                fails.append(Failure(key, '%s(%s): `%s` read first on a newly built analyzer in the long-running harness process differs from the same '
                                          'read in a fresh process (state outside the object: class attributes, module-level objects)' % (ctx.cls, ctx.label, g),
                                     {'cls': ctx.cls, 'label': ctx.label, 'procfresh': g, 'key': key, 'seed': seed}))
    # keep one Failure per (key, case) but not thousands of copies of the same text
    return fails, dict({'histories': n_hist, 'reads': n_reads, 'result_buffers_mutated': n_mut, 'distinct_failure_keys': sorted({f.key for f in fails}),
                        'unavailable': una, 'fresh_object_vs_fresh_process': n_proc}, **sstats)


# ------------------------------------------------------------------ results must not alias the input
def _mutate(v, depth=0):
    """change a result in place as a user might (data += 1, time axis += 5); returns number of buffers touched"""
    import numpy as np
    ts, _ = oc.nt()
    n = 0
    if depth > 4:
        return 0
    if isinstance(v, ts.TimeSeriesBase):
        try:
            t = v.time
            np.add(np.asarray(t), 5, out=np.asarray(t))
            n += 1
        except Exception:
            pass
        n += _mutate(v.data, depth + 1)
    elif isinstance(v, np.ndarray):
        if v.dtype.kind in 'fciu' and v.flags.writeable and v.size:
            try:
                np.add(v, 1, out=v, casting='unsafe')
                n += 1
            except Exception:
                pass
    elif isinstance(v, (tuple, list)):
        for x in v:
            n += _mutate(x, depth + 1)
    elif isinstance(v, dict):
        for x in v.values():
            n += _mutate(x, depth + 1)
    return n


def _deep_input_hash(watched, obj):
    import numpy as np
    ts, _ = oc.nt()
    hs = []
    xs = list(watched) + ([obj.__dict__['input']] if obj.__dict__.get('input') is not None else [])
    for x in xs:
        hs.append(oc.hv(x))
        if isinstance(x, ts.TimeSeriesBase) and 'time' in x.__dict__:
            hs.append(oc.hv(np.asarray(x.__dict__['time'])))
    return hs


def _closure(table, g):
    deps = {r['name']: [table['getters'][d] for (d, _) in r['deps']] for r in table['recs']}
    seen, todo = set(), [g]
    while todo:
        x = todo.pop()
        if x in seen:
            continue
        seen.add(x)
        todo += deps.get(x, [])
    return seen


def result_mutation(ctx, g):
    """read `g` on a fresh object whose input axes were already read, change the RESULT in place, then check
    that the input (data and time axis) is untouched and that unrelated later reads equal fresh reads"""
    ts, _ = oc.nt()
    out = []
    with oc.quiet():
        obj, watched = ctx.build(0)
        for x in list(watched) + ([obj.__dict__.get('input')] if obj.__dict__.get('input') is not None else []):
            if isinstance(x, ts.TimeSeriesBase):
                try:
                    x.time
                except Exception:
                    pass
    v, err = oc.read_result(obj, g)
    if err:
        return out, 0
    before = _deep_input_hash(watched, obj)
    n = _mutate(v)
    after = _deep_input_hash(watched, obj)
    C = ctx.cls
    if before != after:
        out.append(('%s/%s/result-aliases-input' % (C, g),
                    '%s(%s): changing the object returned by `%s` in place (data += 1, time axis += 5) changed the input series (data or time axis)' % (C, ctx.label, g)))
    cg = _closure(ctx.table, g)
    for h in ctx.public:
        if h == g or h in obj.__dict__ or (cg & _closure(ctx.table, h)):
            continue
        if ctx.unavailable.get(h):
            continue
        st = oc.observed_read(obj, ctx.table, watched, h)
        if st.value_hash != ctx.fresh_hash(h):
            out.append(('%s/%s/changed-by-mutating-result/%s' % (C, h, g),
                        '%s(%s): after the result of `%s` was changed in place by the caller, `%s` (which does not depend on it) differs from a fresh read' % (C, ctx.label, g, h)))
    return out, n


def replay(d):
    seed = d.get('seed', 0)
    if d.get('session'):
        return OS.replay_session(d)
    if d.get('procfresh'):
        # meaningful only inside a full run (needs the long-running process); re-run the sessions' reference instead
        for ctx in contexts(seed, 'quick'):
            if ctx.cls == d['cls'] and ctx.label == d['label']:
                refs = OS.Refs(seed, 'quick')
                ref = refs.get((ctx.cls, ctx.label, 'p', 0))['getters']
                if ctx.fresh_hash(d['procfresh']) != ref.get(d['procfresh']):
                    with oc.quiet():
                        o2, _ = ctx.build(0)
                    v2, e2 = oc.read_result(o2, d['procfresh'])
                    if e2 is None and oc.hv_coarse(v2) == refs.coarse((ctx.cls, ctx.label, 'p', 0), d['procfresh']):
                        return None
                    return Failure(d['key'], 'in-process fresh read differs from fresh-process read', d)
        return None
    if d.get('mutate'):
        for ctx in contexts(seed, 'quick'):
            if ctx.cls == d['cls'] and ctx.label == d['label']:
                for key, what in result_mutation(ctx, d['mutate'])[0]:
                    if key == d['key']:
                        return Failure(key, what, d)
                return None
    for ctx in contexts(seed, 'quick'):
        if ctx.cls == d['cls'] and ctx.label == d['label'] and d.get('objs'):
            steps = run_history2(ctx, list(zip(d['objs'], d['hist'])))
            obs = [{'g': s.g, 'h': s.value_hash, 'fired': s.fired, 'cl': s.cl, 'inp': s.inp, 'was_cached': s.was_cached,
                    'same_obj': s.same_obj_as_cached, 'ret_stored': s.returned_is_stored} for s in steps]
            for key, what in judge(ctx, d['hist'], [], obs, d['objs']):
                if d['key'].startswith(key):
                    return Failure(d['key'], what, d)
            return None
        if ctx.cls == d['cls'] and ctx.label == d['label']:
            ctor, steps = run_history(ctx, d['hist'])
            obs = [{'g': s.g, 'h': s.value_hash, 'fired': s.fired, 'cl': s.cl, 'inp': s.inp,
                    'was_cached': s.was_cached, 'same_obj': s.same_obj_as_cached, 'ret_stored': s.returned_is_stored} for s in steps]
            for key, what in judge(ctx, d['hist'], ctor, obs):
                if key == d['key'] or d['key'].startswith(key + '/after/'):
                    return Failure(key, what, d)
            return None
    return Failure(d['key'], 'setting %s/%s no longer exists' % (d['cls'], d['label']), d)
