#!/bin/bash
# seed_sweep.sh "<VERIF_SEED values>" [seed ids...] : every archived seeded change x every seed value -> detection matrix
# (isolated scratch copies; nothing in /repo or the committed evidence is touched; SWEEP_BASE=<tree> starts from another tree than /repo)
SEEDS=${1:-"1 2 3"}; shift
IDS=${@:-$(ls /verif/seeded | grep -E '^C[0-9]+-[0-9]+$')}
cd /verif
for id in $IDS; do
  P=${id%%-*}
  S=$(mktemp -d /tmp/nt_sweep_XXXXXX)
  rsync -a --exclude .git "${SWEEP_BASE:-/repo}/" "$S/"
  (cd "$S" && patch -p1 --no-backup-if-mismatch -s < /verif/seeded/$id/patch.diff) || { echo "$id PATCH-FAILS"; rm -rf "$S"; continue; }
  cp -a lean "$S.lean"
  row="$id"
  for sd in $SEEDS; do
    VERIF_SEED=$sd NITIME_REPO="$S" VERIF_LEAN="$S.lean" VERIF_EVIDENCE_DIR="$S.ev" timeout 900 ./check $P quick > "$S.log" 2>&1; rc=$?
    if grep -q "no-failing-input-found" "$S.log"; then t="nfi"; elif [ $rc = 1 ]; then t="V"; else t="MISS($rc)"; fi
    row="$row seed$sd=$t"
  done
  echo "$row"
  rm -rf "$S" "$S.lean" "$S.ev" "$S.log"
done
