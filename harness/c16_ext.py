"""C16, session 3: representation families for EVERY array argument (L1), process histories around every entry point
(L2 sandwich, L6 handed-out results), optional parameters with non-default and falsy values (L3).

Everything here is oracle-side (snapshots of the arguments, canonical forms of the results of the REAL code); nothing
consults the Lean model.  `c16.sweep` calls into this module; `import c16` is done lazily (c16 imports us).
"""
import copy, inspect
import numpy as np
from common import Failure, err_kind, np_rng
import histories

# ------------------------------------------------------------------ L1: representation of every array argument
L1_KINDS = ['int16', 'int32', 'int64', 'uint8', 'bool', 'float32', 'complex64', 'bigendian', 'fortran', 'strided', 'lead1', 'lead2', 'lead2-int']
L1_FAMILIES = ['L1-' + k for k in L1_KINDS]


def retype_array(x, kind):
    """the array `x` in another storage representation (values rescaled for the integer kinds); None = leave as is"""
    if type(x) is not np.ndarray or x.dtype.kind not in 'fciub' or x.size == 0:      # plain arrays only: time objects stay int64 ps
        return None
    if kind in ('int16', 'int32', 'int64', 'uint8'):
        if x.dtype.kind == 'c':
            return None
        if x.dtype.kind in 'iub':
            info = np.iinfo(kind)
            return x.astype(kind) if x.min() >= info.min and x.max() <= info.max else None
        if not np.all(np.isfinite(x)):
            return None
        m = float(np.max(np.abs(x))) or 1.0
        if kind == 'uint8':
            return np.round((x - x.min()) / ((x.max() - x.min()) or 1.0) * 200 + 20).astype(kind)
        return np.round(x / m * 100).astype(kind)
    if kind == 'bool':
        return (x > 0) if x.dtype.kind == 'f' else None
    if kind == 'float32':
        return x.astype(np.float32) if x.dtype.kind == 'f' else x.astype(np.complex64) if x.dtype.kind == 'c' else None
    if kind == 'complex64':
        return x.astype(np.complex64) if x.dtype.kind in 'fc' else None
    if kind == 'bigendian':
        return x.astype(x.dtype.newbyteorder('>')) if x.dtype.itemsize > 1 else None
    if kind == 'fortran':
        return np.asfortranarray(x) if x.ndim >= 2 else None
    if kind in ('lead1', 'lead2', 'lead2-int'):
        # extra leading dimension(s) (subjects x channels x time): C-contiguous, so that the leading axes merge without a copy
        if x.ndim == 0 or x.dtype.kind not in 'fc':
            return None
        y = np.array(x[np.newaxis]) if kind == 'lead1' else np.ascontiguousarray(np.stack([x, x[..., ::-1]]))
        if kind == 'lead2-int' and y.dtype.kind == 'f' and np.all(np.isfinite(y)):
            y = np.round(y / (float(np.max(np.abs(y))) or 1.0) * 100).astype(np.int64)
        return y
    if kind == 'strided':
        if x.ndim == 0:
            return None
        big = np.zeros(x.shape[:-1] + (2 * x.shape[-1],), dtype=x.dtype)
        big[..., ::2] = x
        return big[..., ::2]
    raise ValueError(kind)


def retype(obj, kind, depth=0):
    """every ndarray reachable from an argument (tuples, lists, dicts) in representation `kind`"""
    if isinstance(obj, np.ndarray):
        y = retype_array(obj, kind)
        return obj if y is None else y
    if depth < 3:
        if isinstance(obj, tuple):
            return tuple(retype(v, kind, depth + 1) for v in obj)
        if isinstance(obj, list):
            return [retype(v, kind, depth + 1) for v in obj]
        if isinstance(obj, dict):
            return {k: retype(v, kind, depth + 1) for k, v in obj.items()}
    return obj


def retype_entries(E, kind):
    return [(name, f, tuple(retype(x, kind) for x in a), {key: retype(v, kind) for key, v in k.items()}) for name, f, a, k in E]


# ------------------------------------------------------------------ canonical form of a result (taken BEFORE anyone scribbles)
def canon(r, depth=0):
    import c16
    t = c16.ts()
    if isinstance(r, t.TimeSeriesBase):
        return ('TS', canon(np.asarray(r.data)), repr(getattr(r, 'time_unit', None)), repr(float(r.sampling_interval)) if hasattr(r, 'sampling_interval') else '',
                repr(float(r.t0)) if hasattr(r, 't0') else '')
    if isinstance(r, np.ndarray):
        a = np.asarray(r)
        if a.dtype == object:
            return ('O', a.shape, tuple(canon(v, depth + 1) for v in a.reshape(-1))) if depth < 3 else ('O', a.shape)
        return ('A', str(a.dtype), a.shape, a.copy())
    if isinstance(r, (tuple, list)):
        return ('L', type(r).__name__, tuple(canon(v, depth + 1) for v in r)) if depth < 4 else ('L',)
    if isinstance(r, dict):
        return ('D', tuple((repr(k), canon(v, depth + 1)) for k, v in sorted(r.items(), key=lambda kv: repr(kv[0])))) if depth < 4 else ('D',)
    if isinstance(r, (int, float, complex, np.number, bool, np.bool_)):
        return ('N', complex(r))
    if r is None or isinstance(r, str):
        return ('V', repr(r))
    if hasattr(r, 'data') and isinstance(getattr(r, 'data', None), np.ndarray):
        return ('X', type(r).__name__, canon(r.data, depth + 1))
    return ('V', type(r).__name__)


def same(a, b, rtol=1e-9):
    """equal canonical forms (numbers up to rtol of the largest magnitude: a repeated call may sum in another order)"""
    if a[0] != b[0]:
        return False
    if a[0] == 'A':
        if a[1] != b[1] or a[2] != b[2]:
            return False
        x, y = a[3], b[3]
        if x.dtype.kind in 'fc':
            with np.errstate(all='ignore'):
                fin = np.isfinite(x) & np.isfinite(y)
                if not np.array_equal(np.isnan(x), np.isnan(y)) or not np.array_equal(x[~fin & ~np.isnan(x)], y[~fin & ~np.isnan(y)]):
                    return False
                if not fin.any():
                    return True
                scale = max(float(np.max(np.abs(x[fin]))), float(np.max(np.abs(y[fin]))))
                return bool(np.all(np.abs(x[fin] - y[fin]) <= rtol * scale + 1e-300))
        return bool(np.array_equal(x, y))
    if a[0] == 'N':
        x, y = a[1], b[1]
        if x != x or y != y:
            return (x != x) == (y != y)
        return abs(x - y) <= rtol * max(abs(x), abs(y)) + 1e-300 if np.isfinite(x) and np.isfinite(y) else x == y
    if a[0] == 'L':
        return a[1:2] == b[1:2] and len(a) == len(b) and (len(a) < 3 or (len(a[2]) == len(b[2]) and all(same(p, q, rtol) for p, q in zip(a[2], b[2]))))
    if a[0] == 'D':
        return len(a) == len(b) and (len(a) < 2 or (len(a[1]) == len(b[1]) and all(p[0] == q[0] and same(p[1], q[1], rtol) for p, q in zip(a[1], b[1]))))
    if a[0] == 'TS':
        return same(a[1], b[1], rtol) and a[2:] == b[2:]
    if a[0] == 'O':
        return a[1] == b[1] and len(a) == len(b) and (len(a) < 3 or all(same(p, q, rtol) for p, q in zip(a[2], b[2])))
    if a[0] == 'X':
        return a[1] == b[1] and same(a[2], b[2], rtol)
    return a == b


def result_arrays(r):
    """every ndarray reachable from a result (incl. series data, containers)"""
    return [a for a in histories._arrays(r) if isinstance(a, np.ndarray) and a.size]


def overlaps(a, b):
    return a.size and b.size and np.may_share_memory(a, b) and np.shares_memory(a, b)


# results that ARE (a view of) an argument by design — the same list as Props.C16.mayReturnArgument (by entry name prefix)
RESULT_MAY_BE_ARGUMENT = ('utils.zero_pad', 'utils.ar_generator/v', 'utils.normalize_coherence', 'utils.normal_coherence_to_unit',
                          'utils.tridi_inverse_iteration', 'utils.unwrap_phases', 'utils.multi_intersect',
                          # numpy-like views / containers by design: slicing a time object or a series, TimeSeries(data) and
                          # Events(t, key=array) wrap the arrays they are given
                          'ts.TimeArray.getitem', 'ts.TimeArray.during', 'ts.TimeArray.slice_during', 'ts.UniformTime.getitem',
                          'ts.UniformTime.during', 'ts.UniformTime.slice_during', 'ts.TimeSeries.getitem', 'ts.TimeSeries.at',
                          'ts.TimeSeries.during', 'ts.TimeSeries.ctor', 'ts.Epochs.getitem', 'ts.Events.ctor', 'ts.Events.getitem',
                          'ts.TimeArray.ctor/copy-false', 'ts.TimeSeries.time')    # .time: the series' own stored axis (re-read = same object)


def arg_arrays(argv):
    import c16
    out = []
    for x in argv:
        out += [a for a in c16.arrays_in(x)]
        out += [a for a in histories._arrays(x) if isinstance(a, np.ndarray)]
    return out


class History:
    """L2 / L6 bookkeeping of one pass over the entry-point table"""

    def __init__(self, fam, rep):
        self.fam, self.rep = fam, rep
        self.items = []          # [name, labels, argv, args_snapshot, result, canon(result), raised_kind]

    def record(self, name, labels, argv, snaps, res, raised):
        self.items.append([name, labels, argv, snaps, res, ('raised', raised) if raised else canon(res), raised])

    def judge_aliases(self, fails):
        """a result must not share memory with an argument (unless by design) nor with the result of another call"""
        owners = []
        for name, labels, argv, _, res, _, raised in self.items:
            if raised or 'copy-expected' in name:
                continue
            args = arg_arrays(argv)
            mine = []
            for r in result_arrays(res):
                hit = [lab for lab, x in zip(labels, argv) for xa in arg_arrays([x]) if overlaps(r, xa)]
                if hit:
                    if not name.startswith(RESULT_MAY_BE_ARGUMENT):
                        fails.append(Failure('entry/%s/result-shares-memory-with-%s' % (name, hit[0]),
                                             'the result of nitime %s shares memory with its argument `%s` (a caller changing the result changes the input); input family: %s'
                                             % (name, hit[0], self.fam), dict(self.rep, name=name)))
                else:
                    mine.append(r)
            owners.append((name, mine))
        # results of different calls (a routine handing out its cache's own buffer gives the same memory twice)
        flat = [(n, a) for n, arrs in owners for a in arrs]
        if flat:
            lo = np.array([a.__array_interface__['data'][0] for _, a in flat])
            order = np.argsort(lo)
            for i_, j_ in zip(order[:-1], order[1:]):
                (n1, a1), (n2, a2) = flat[i_], flat[j_]
                if n1 != n2 and overlaps(a1, a2):
                    fails.append(Failure('entry/%s/result-shares-memory-with-result-of-another-call' % n2.split('/')[0],
                                         'the results of nitime %s and %s share memory (a handed-out internal buffer); input family: %s' % (n1, n2, self.fam),
                                         dict(self.rep, name=n2)))

    def judge_handed_out(self, fails, when):
        """L6: what was handed out earlier still holds what it held"""
        for name, _, _, _, res, c0, raised in self.items:
            if raised:
                continue
            if not same(c0, canon(res)):
                fails.append(Failure('entry/%s/earlier-result-changed-%s' % (name, when),
                                     'the result handed out by nitime %s was changed %s; input family: %s' % (name, when.replace('-', ' '), self.fam),
                                     dict(self.rep, name=name)))

    def scribble(self, fails):
        """a caller overwrites everything it was handed; its ARGUMENTS must not change by that"""
        import c16
        for name, labels, argv, snaps, res, _, raised in self.items:
            if raised or name.startswith(RESULT_MAY_BE_ARGUMENT) or 'copy-expected' in name:
                continue
            histories.scribble(res)
            for lab, x, b0 in zip(labels, argv, snaps):
                if c16.differs(b0, c16.snap(x)):
                    fails.append(Failure('entry/%s/write-to-result-reaches-%s' % (name, lab),
                                         'overwriting the result of nitime %s changed its argument `%s`; input family: %s' % (name, lab, self.fam),
                                         dict(self.rep, name=name)))

    def judge_second_pass(self, fails, E3, call):
        """equal arguments (fresh buffers) after the perturbation => equal result"""
        byname = {it[0]: it for it in self.items}
        n = 0
        for name, f, a, k in E3:
            it = byname.get(name)
            if it is None:
                continue
            res, raised = call(name, f, a, k)
            c1 = ('raised', raised) if raised else canon(res)
            n += 1
            if not same(it[5], c1):
                what = 'raises %s' % raised if raised else ('returned normally' if it[6] else 'returns other values')
                fails.append(Failure('entry/%s/second-call-differs' % name,
                                     'nitime %s called again with equal arguments (after other calls of the module and after the caller overwrote every earlier result) %s; first: %s; input family: %s'
                                     % (name, what, ('raised ' + it[6]) if it[6] else 'returned', self.fam), dict(self.rep, name=name)))
        return n


# ------------------------------------------------------------------ L3: optional parameters
NAME_VALUES = {
    'sides': ['onesided', 'twosided', 'default'], 'Fs': [1.0, 0.5, 0], 'NFFT': [32, 128], 'BW': [0.5, 0], 'NW': [2.5], 'low_bias': [False, True],
    'adaptive': [True, False], 'jackknife': [True, False], 'normalize': [False, True, 0], 'debias': [False, 0], 'all_lags': [True, False], 'axis': [0, -1],
    'ax': [0, -1], 'n_iterations': [0, 1, 3], 'boxcar_iterations': [0, 1, 3], 'N': [32], 'lb': [0, 0.0, 0.1], 'ub': [None, 0.25, 0.5], 'n_overlap': [0, 8],
    'scale_by_freq': [True, False, None], 'nlags': [1, 5], 'mode': ['same', 'full'], 'p': [0.5, 0.9], 'n_freqs': [8], 'n_bins': [4], 'drop_transients': [0, 5],
    'sigma': [0.5, 0], 'max_iter': [3], 'rtol': [1e-3], 'deg': [True, False], 'bottom': [0, -1.0], 'top': [0, 2.0], 'power': [True], 'corrected': [True],
    'interp_from': [32], 'interp_kind': ['nearest', 'cubic'], 'fill_val': [0, np.nan], 'fir_win': ['hann', 'boxcar', ('kaiser', 4.0)], 'gpass': [0.5, 3],
    'gstop': [20, 80], 'iir_ftype': ['butter', 'cheby1', 'ellip'], 'filt_order': [8, 33], 'f_min': [0.05], 'f_max': [0.4], 'nfreqs': [3], 'log_spacing': [True],
    'log_morlet': [True], 'sd': [0.1], 'sd_rel': [0.1, 0.3], 'unwrap_phases': [True], 'alpha': [0.1], 'bandwidth': [0.2], 'order': [1, 3], 'max_order': [3],
    'n_freqs_': [], 'criterion': [], 'zscore': [True], 'correct_baseline': [True], 'offset': [-1, 2], 'len_et': [4], 'prefer_speed_over_memory': [False],
    'time_unit': ['ms'], 'tol': [0, 1], 'centered': [True, False], 'detrend': [], 'window': [], 'NFFT_': [],
}
SKIP_PARAMS = {'copy', 'out', 'x0', 'Sk', 'rxx', 'v', 'method', 'csd_method', 'ij', 'input', 'time_series', 'freqs', 'events', 'weights', 'eigvals',
               'folding_edges', 'vmin', 'vmax', 'self'}


def option_values(name, default):
    vals = list(NAME_VALUES.get(name, []))
    if not vals:
        if isinstance(default, bool):
            vals = [not default]
        elif isinstance(default, int):
            vals = [0, default + 1]
        elif isinstance(default, float):
            vals = [0.0, default * 2 or 1.0]
    out = []
    for v in vals:
        try:
            if (v is default) or (not isinstance(v, float) or v == v) and type(v) == type(default) and v == default:
                continue
        except Exception:  # noqa
            pass
        out.append(v)
    return out


def option_variants(E):
    """(name?param=value, f, args, kwargs) for every optional parameter of every entry point that the entry does not set"""
    out, seen = [], set()
    for name, f, a, k in E:
        if name.startswith('FAIL/') or 'copy-expected' in name:
            continue
        try:
            sig = inspect.signature(f)
        except (TypeError, ValueError):
            continue
        params = list(sig.parameters.values())
        for i, p in enumerate(params):
            if p.default is inspect.Parameter.empty or p.kind in (p.VAR_POSITIONAL, p.VAR_KEYWORD) or p.name in k or i < len(a) or p.name in SKIP_PARAMS:
                continue
            for v in option_values(p.name, p.default):
                tag = '%s?%s=%r' % (name, p.name, v)
                if (getattr(f, '__name__', name), tuple(sorted(k)), len(a), p.name, repr(v), name.split('/')[0]) in seen:
                    continue
                seen.add((getattr(f, '__name__', name), tuple(sorted(k)), len(a), p.name, repr(v), name.split('/')[0]))
                out.append((tag, f, copy.deepcopy(a), dict(copy.deepcopy(k), **{p.name: v})))
    return out


def analyzer_option_variants(cls, a, k):
    """[(tag, kwargs)] for the optional constructor parameters of an analyzer class that the configuration does not set"""
    out = []
    try:
        sig = inspect.signature(cls.__init__)
    except (TypeError, ValueError):
        return out
    params = list(sig.parameters.values())[1:]
    for i, p in enumerate(params):
        if p.default is inspect.Parameter.empty or p.kind in (p.VAR_POSITIONAL, p.VAR_KEYWORD) or p.name in k or i < len(a) or p.name in SKIP_PARAMS:
            continue
        for v in option_values(p.name, p.default):
            out.append(('%s=%r' % (p.name, v), dict(k, **{p.name: v})))
    return out
