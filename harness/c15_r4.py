"""C15 round 4: classes L9 (size thresholds), L10 (wide dynamic range) and L3-on-grid (band edges ON a DFT bin and one ulp
to either side) for the analyzers and the file reader.

* `large_experiments(spec)` — ORACLE ONLY (the Lean model does not run at these sizes).  A long count-valued recording
  (integers 0..9 stored as float64; every channel but the last carries ONE 1e9 transient) goes through every analyzer whose
  algorithm could change regime with the size.  Expectations come from the definitions:
  - CorrelationAnalyzer.xcorr: lag l of pair (i <= j) = the INTEGER sum  sum_t x_i[t+l] x_j[t]  (int64, exact).  Where
    the sum of |products| is below 2^53 every partial sum in any order is an exact double: equality is required;
    elsewhere (the one lag with the 1e18 product) the forward bound n*u*sum|products|.
  - xcorr_norm: those integers / the zero-lag integer x r_ij, r_ij from exact rational moments; per lag 1e-11 relative
    + the bound above.  corrcoef: against the rational r_ij.
  - HilbertAnalyzer: the analytic signal by its definition on the series' OWN length (np.fft, weights 1,2,..,2,(1),0..).
  - FilterAnalyzer: filtered_fourier = closed-band projection on the true bin frequencies (np.fft); fir / iir = the
    direct scipy design + filtfilt on the same samples.
  - SpectralAnalyzer: spectrum_fourier = np.fft.rfft and Parseval against the exact integer energy; periodogram / psd /
    multi-taper against the direct algorithm call, periodogram also integrates to the exact mean square.
  Tolerances are multiples of eps*log2(n)*max|.| (what a length-n transform achieves), three orders of magnitude below
  what an FFT-product / padded / blocked regime would leave (1e-7 of the maximum = tens at lags whose value is 0..2).
* `ongrid_*` — FilterAnalyzer.filtered_fourier and time_series_from_file(filter={'method': 'fourier', ...}) with lb, ub
  exactly ON bin frequencies k*Fs/n and np.nextafter to both sides, round numbers (TR = 2 s, 200 volumes, 0.01-0.1 Hz;
  1 ms, 1000 samples, 8-12 Hz ...) and dyadic grids.  Expectation: bin m is kept iff m == 0 or lb <= g_m <= ub, g_m the
  CORRECTLY ROUNDED true frequency m*Fs/n (Fraction -> float; Fs = 10^12/interval_ps), projection by np.fft.  Only
  configurations where every plausible float formula for the edge bin agrees with g_m are generated (no ulp ties: the
  false alarm corrected in wave 1), so on-bin / one-ulp-inside / one-ulp-outside are decided without tolerance.
  The same configurations go to the Lean model (`C15 band ...`: which bins the closed band keeps) — the code's mask is
  observed from outside as the transfer function of the analyzer on a unit impulse.
"""
import math
import os
from fractions import Fraction as Fr

import numpy as np

import common
from common import Case, Failure, f2x

PID = 'C15'
EPS = 2.0 ** -52


def _c15():
    import c15
    return c15


def _ts():
    import nitime.timeseries as ts
    return ts


def _an():
    import nitime.analysis as A
    return A


# ------------------------------------------------------------------------------------------------ L9 / L10: long recordings
LARGE_LENS = [2047, 2048, 2049, 4096, 8193, 2500, 4097, 3001]      # 2^11 +- 1, 2^12, 2^13 + 1, beyond scipy's direct/FFT switch
LARGE_AXES = [('s', 2.0), ('ms', 1.0), ('us', 100.0), ('s', 0.5)]


def large_specs(seed, tier):
    """two lengths per quick run (one at 2^11 +- 1, one in the FFT regime of scipy's `auto` methods), rotated by the seed"""
    small = [2047, 2048, 2049][seed % 3]
    big = [4096, 8193, 4097, 2500, 3001][seed % 5]
    lens = [small, big, 8193 if big != 8193 else 4096] if tier == 'quick' else LARGE_LENS
    out = []
    for i, n in enumerate(lens):
        unit, iv = LARGE_AXES[(seed + i) % len(LARGE_AXES)]
        out.append(dict(n=n, C=3, unit=unit, iv=iv, seed=1000 * seed + n, transient=1e9, signed=bool((seed + i) % 2)))
    # beyond 2^16 samples (blocks of 2^15 / 2^16 frequencies, single-precision temporaries): everything but the O(n^2) lag sums
    for n in ([[65538, 70000, 131072, 66000][seed % 4]] if tier == 'quick' else [65538, 70000, 131072]):
        unit, iv = [('ms', 1.0), ('s', 2.0), ('ms', 4.0)][(seed + n) % 3]
        out.append(dict(n=n, C=2, unit=unit, iv=iv, seed=1000 * seed + n, transient=1e9, signed=False, skip_corr=True))
    return out


def large_data(spec):
    """integer-valued recording (int64 copy returned too): counts 0..9 (or -4..5), one transient per channel but the last"""
    rs = np.random.RandomState(spec['seed'])
    n, C = spec['n'], spec['C']
    xi = rs.randint(0, 10, size=(C, n)).astype(np.int64)
    if spec.get('signed'):
        xi[-1] -= 4
    pos = [n // 3, n // 2 + 5, n - 7, 11]
    for c in range(C - 1):
        xi[c, pos[c % len(pos)]] = int(spec['transient'])
    return xi


def exact_r(xi, i, j):
    """Pearson r of two integer rows from exact rational moments (one square root at the end)"""
    n = xi.shape[1]
    a, b = [int(v) for v in xi[i]], [int(v) for v in xi[j]]
    sa, sb = sum(a), sum(b)
    cab = n * sum(p * q for p, q in zip(a, b)) - sa * sb
    caa = n * sum(p * p for p in a) - sa * sa
    cbb = n * sum(q * q for q in b) - sb * sb
    return math.copysign(math.sqrt(Fr(cab * cab, caa * cbb)), cab) if cab else 0.0


def analytic_by_definition(x):
    """x + i H[x] on the series' own length: one-sided spectrum doubled (DC and, for even n, Nyquist kept once)"""
    n = x.shape[-1]
    h = np.zeros(n)
    if n % 2 == 0:
        h[0] = h[n // 2] = 1
        h[1:n // 2] = 2
    else:
        h[0] = 1
        h[1:(n + 1) // 2] = 2
    return np.fft.ifft(np.fft.fft(x, axis=-1) * h, axis=-1)


def band_projection(x, gfreq, lb, ub):
    """closed band [lb, ub] on the bin frequencies gfreq[min(k, n-k)], DC kept"""
    n = x.shape[-1]
    keep = np.zeros(n, dtype=bool)
    for k in range(n):
        g = gfreq[min(k, n - k)]
        keep[k] = (k == 0) or (lb <= g and (ub is None or g <= ub))
    return np.real(np.fft.ifft(np.fft.fft(x, axis=-1) * keep, axis=-1)), keep


def true_bins(n, dt_ps):
    """correctly rounded true bin frequencies m*Fs/n, Fs = 10^12/dt_ps"""
    return [float(Fr(m * 10**12, n * dt_ps)) for m in range(n // 2 + 1)]


def large_experiments(spec):
    C15 = _c15()
    TS, A = _ts(), _an()
    import scipy.signal as signal
    import nitime.algorithms as tsa
    xi = large_data(spec)
    n, C = spec['n'], spec['C']
    x = xi.astype(np.float64)
    fails = []
    meta = {'op': 'large', 'spec': spec}

    def fail(key, what):
        fails.append(Failure('large/' + key, '%s  [n=%d channels=%d unit=%s interval=%r transient=%g]' % (what, n, C, spec['unit'], spec['iv'], spec['transient']),
                             {'meta': meta}))

    def attempt(key, fn):
        try:
            fn()
        except Exception as e:  # noqa
            fail(key + '/raises', 'raised %r' % (e,))

    def mkT():
        return TS.TimeSeries(x.copy(), sampling_interval=spec['iv'], time_unit=spec['unit'])
    T = mkT()
    dt_ps = C15.axis_of(T)['dt']
    Fs = 10.0**12 / dt_ps
    logn = math.log2(n)
    big = float(np.abs(x).max())

    # ---- correlation: exact integer sums
    def corr():
        K = A.CorrelationAnalyzer(mkT())
        xc = np.asarray(K.xcorr.data)
        K2 = A.CorrelationAnalyzer(mkT())
        xn = np.asarray(K2.xcorr_norm.data)
        cc = np.asarray(A.CorrelationAnalyzer(mkT()).corrcoef)
        if xc.shape != (C, C, 2 * n - 1):
            fail('CorrelationAnalyzer/xcorr/shape', 'xcorr has shape %r' % (xc.shape,))
            return
        for i in range(C):
            for j in range(i, C):
                ex = np.correlate(xi[i], xi[j], 'full')                     # int64: exact (|sum| < 2^63)
                cond = np.correlate(np.abs(xi[i]), np.abs(xi[j]), 'full')
                exact = cond < 2**53
                exf = ex.astype(np.float64)
                err = np.abs(xc[i, j] - exf)
                bad = np.where(exact & (err != 0))[0]
                if len(bad):
                    l = int(bad[np.argmax(err[bad])])
                    fail('CorrelationAnalyzer/xcorr/integer-lag-not-exact',
                         'xcorr[%d,%d] lag index %d is %r, the integer sum of products is %d (%d of %d exactly representable lags differ, largest error %g)' % (
                             i, j, l, float(xc[i, j, l]), int(ex[l]), len(bad), int(exact.sum()), float(err[bad].max())))
                bad = np.where(~exact & (err > (n + 2) * EPS * cond.astype(np.float64)))[0]
                if len(bad):
                    l = int(bad[0])
                    fail('CorrelationAnalyzer/xcorr/value', 'xcorr[%d,%d] lag index %d is %r, exact %d: beyond n*u*sum|products|' % (i, j, l, float(xc[i, j, l]), int(ex[l])))
                r = exact_r(xi, i, j)
                if abs(cc[i, j] - r) > 1e-10 * max(abs(r), 1e-3):
                    fail('CorrelationAnalyzer/corrcoef/value', 'corrcoef[%d,%d] = %r, from exact rational moments %r' % (i, j, float(cc[i, j]), r))
                z = int(ex[n - 1])
                if z != 0:
                    want = exf / float(z) * r
                    tol = 1e-11 * np.abs(want) + 4 * (n + 2) * EPS * cond.astype(np.float64) * abs(r / z) + 1e-300
                    e2 = np.abs(xn[i, j] - want)
                    bad = np.where(~(e2 <= tol))[0]
                    if len(bad):
                        l = int(bad[np.argmax((e2 / tol)[bad])])
                        fail('CorrelationAnalyzer/xcorr_norm/value',
                             'xcorr_norm[%d,%d] lag index %d is %r, expected (integer lag %d / zero lag %d) * r = %r (%d lags off)' % (
                                 i, j, l, float(xn[i, j, l]), int(ex[l]), z, float(want[l]), len(bad)))
    if not spec.get('skip_corr'):
        attempt('CorrelationAnalyzer', corr)

    # ---- seed correlation (np.corrcoef rows) on the long recording
    def seedcorr():
        sd = TS.TimeSeries(x[0].copy(), sampling_interval=spec['iv'], time_unit=spec['unit'])
        sc = np.asarray(A.SeedCorrelationAnalyzer(sd, mkT()).corrcoef)
        for j in range(C):
            r = 1.0 if j == 0 else exact_r(xi, 0, j)
            if abs(sc[j] - r) > 1e-10 * max(abs(r), 1e-3):
                fail('SeedCorrelationAnalyzer/corrcoef/value', 'corrcoef[%d] = %r, from exact rational moments %r' % (j, float(sc[j]), r))
    attempt('SeedCorrelationAnalyzer', seedcorr)

    tolT = 64 * EPS * logn * big          # a length-n transform pair: a few eps*log2(n) of the largest sample

    # ---- Hilbert
    def hilb():
        want = analytic_by_definition(x)
        H = A.HilbertAnalyzer(mkT())
        got = np.asarray(H.analytic.data)
        if got.shape != want.shape or not (np.abs(got - want) <= tolT).all():
            fail('HilbertAnalyzer/analytic/definition', 'analytic signal differs from x + iH[x] on the series length by %g (tolerance %g)' % (
                float(np.abs(got - want).max()) if got.shape == want.shape else float('nan'), tolT))
        for g, f in (('amplitude', np.abs), ('real', np.real), ('imag', np.imag)):
            v = np.asarray(getattr(A.HilbertAnalyzer(mkT()), g).data)
            if v.shape != want.shape or not (np.abs(v - f(want)) <= tolT).all():
                fail('HilbertAnalyzer/%s/definition' % g, '%s differs from the definition by %g (tolerance %g)' % (g, float(np.abs(v - f(want)).max()), tolT))
        if not (np.abs(got.real - x) <= tolT).all():
            fail('HilbertAnalyzer/analytic/real-part-is-input', 'real part differs from the recording by %g' % float(np.abs(got.real - x).max()))
    attempt('HilbertAnalyzer', hilb)

    # ---- filters
    # edges safely BETWEEN bins (0.3071 * Fs is bin 21497 of a 70000-sample grid: a product of round numbers can land on a bin)
    lb, ub = (int(0.0537 * n) + 0.37) * Fs / n, (int(0.3071 * n) + 0.61) * Fs / n

    def filt():
        g = true_bins(n, dt_ps)
        want, _ = band_projection(x, g, lb, ub)
        F = A.FilterAnalyzer(mkT(), lb=lb, ub=ub)
        got = np.asarray(F.filtered_fourier.data)
        if got.shape != want.shape or not (np.abs(got - want) <= tolT).all():
            fail('FilterAnalyzer/filtered_fourier/projection', 'differs from the closed-band projection by %g (tolerance %g)' % (float(np.abs(got - want).max()), tolT))
        for getter, order in (('fir', 64), ('iir', None), ('fir', 10)):
            sp = dict(filt_order=order) if order else {}
            F = A.FilterAnalyzer(mkT(), lb=lb, ub=ub, **sp)
            got = np.asarray(getattr(F, getter).data)
            lf, uf = lb / (Fs / 2), ub / (Fs / 2)

            def ff(b, a, xx):
                o = np.empty(xx.shape)
                for r in range(xx.shape[0]):
                    y = signal.filtfilt(b, a, xx[r])
                    o[r] = y - y.mean() + xx[r].mean()
                return o
            if getter == 'iir':
                b, a = signal.iirdesign([lf, uf], [max(lf - 0.1, 0.001), min(uf + 0.1, 0.999)], 1, 60, ftype='ellip')
                want = ff(b, a, x)
                tol = 1e-9 * big          # a recursive filter run forwards and backwards amplifies rounding: conditioning, not the transform bound
            else:
                b1 = signal.firwin(order + 1, uf, window='hamming')
                b2 = -1 * signal.firwin(order + 1, lf, window='hamming')
                b2[order // 2] += 1
                want = ff(b2, [1], ff(b1, [1], x))
                tol = 64 * EPS * (order + 1) * big
            if got.shape != want.shape or not (np.abs(got - want) <= tol).all():
                fail('FilterAnalyzer/%s/value' % getter, '%s (order %r) differs from the direct design + filtfilt by %g (tolerance %g)' % (
                    getter, order, float(np.abs(got - want).max()), tol))
    attempt('FilterAnalyzer', filt)

    def filt_ongrid():
        # band edges ON bins of the long grid and one ulp to either side, tie-free bins only
        g = true_bins(n, dt_ps)
        rate = float(T.sampling_rate)
        for (ka, kb), (lf, uf) in zip(((n // 10 + 1, n // 3 + 1), (n // 7 + 2, n // 4 + 3), (n // 9 + 5, n // 2 - 70)), (('on', 'on'), ('above', 'below'), ('below', 'above'))):
            ks = []
            for k0 in (ka, kb):
                k = next((k for k in range(k0, min(k0 + 60, n // 2)) if unambiguous(n, dt_ps, k, rate)), None)
                ks.append(k)
            if None in ks:
                continue
            lo, hi = nudge(g[ks[0]], lf), nudge(g[ks[1]], uf)      # one ulp outside / inside: a narrower grid cannot tell them from the bin
            want, _ = band_projection(x, g, lo, hi)
            got = np.asarray(A.FilterAnalyzer(mkT(), lb=lo, ub=hi).filtered_fourier.data)
            if got.shape != want.shape or not (np.abs(got - want) <= tolT).all():
                fail('FilterAnalyzer/filtered_fourier/edges-on-grid', 'lb %s bin %d (%r Hz), ub %s bin %d (%r Hz): differs from the closed-band projection by %g (tolerance %g)' % (
                    lf, ks[0], lo, uf, ks[1], hi, float(np.abs(got - want).max()), tolT))
    attempt('FilterAnalyzer/filtered_fourier/edges-on-grid', filt_ongrid)

    # ---- spectra
    def spectra():
        S = A.SpectralAnalyzer(mkT())
        f, X = S.spectrum_fourier
        want = np.fft.rfft(x, axis=-1)
        X = np.asarray(X)
        tolS = 64 * EPS * logn * float(np.abs(want).max())
        if X.shape != want.shape or not (np.abs(X - want) <= tolS).all():
            fail('SpectralAnalyzer/spectrum_fourier/definition', 'differs from the DFT of the recording by %g (tolerance %g)' % (
                float(np.abs(X - want).max()) if X.shape == want.shape else float('nan'), tolS))
        else:
            w = np.full(X.shape[-1], 2.0)
            w[0] = 1
            if n % 2 == 0:
                w[-1] = 1
            for c in range(C):
                energy = n * sum(int(v) * int(v) for v in xi[c])
                got = float((w * np.abs(X[c]) ** 2).sum())
                if abs(got - energy) > 1e-11 * energy:
                    fail('SpectralAnalyzer/spectrum_fourier/parseval', 'channel %d: sum |X_k|^2 = %r, n * sum x^2 = %d exactly' % (c, got, energy))
        g = np.asarray(true_bins(n, dt_ps))
        if len(f) != len(g) or not (np.abs(np.asarray(f) - g) <= 4 * EPS * g).all():
            fail('SpectralAnalyzer/spectrum_fourier/frequencies', 'frequencies are not k*Fs/n')
        f2, P = A.SpectralAnalyzer(mkT()).periodogram
        fw, Pw = tsa.periodogram(x, Fs=Fs)
        P = np.asarray(P)
        if P.shape != Pw.shape or not (np.abs(P - Pw) <= 1e-12 * np.abs(Pw).max()).all():
            fail('SpectralAnalyzer/periodogram/value', 'differs from the direct algorithm call')
        else:
            for c in range(C):
                ms = Fr(sum(int(v) * int(v) for v in xi[c]), n)
                got = float(P[c].sum()) * Fs / n
                if abs(got - float(ms)) > 1e-10 * float(ms):
                    fail('SpectralAnalyzer/periodogram/integral', 'channel %d: integral of the periodogram %r, mean square of the recording %r' % (c, got, float(ms)))
        f3, p3 = A.SpectralAnalyzer(mkT()).psd
        rows = [tsa.mlab.psd(r, NFFT=64, Fs=Fs, detrend=tsa.mlab.detrend_none, window=tsa.mlab.window_hanning, noverlap=32) for r in x]
        w3 = np.array([r[0].squeeze() for r in rows])
        if np.asarray(p3).shape != w3.shape or not (np.abs(np.asarray(p3) - w3) <= 1e-12 * np.abs(w3).max()).all():
            fail('SpectralAnalyzer/psd/value', 'differs from the direct Welch estimate per channel')
        if n <= 4200:
            f4, p4 = A.SpectralAnalyzer(mkT()).spectrum_multi_taper
            w4 = np.array([tsa.multi_taper_psd(r, Fs=Fs, BW=None, adaptive=False, low_bias=False)[1] for r in x])
            if np.asarray(p4).shape != w4.shape or not (np.abs(np.asarray(p4) - w4) <= 1e-10 * np.abs(w4).max()).all():
                fail('SpectralAnalyzer/spectrum_multi_taper/value', 'differs from the direct multi-taper estimate per channel')
    attempt('SpectralAnalyzer', spectra)
    return fails


# ------------------------------------------------------------------------------------------------ L10: lopsided magnitudes
def lopsided_specs(seed, tier):
    out = []
    for i in range(3 if tier == 'quick' else 24):
        j = seed + i
        out.append(dict(n=[96, 127, 301, 64, 250][j % 5], level=2 ** [20, 24, 22, 23, 21][j % 5], amp=[3, 2, 5][j % 3], seed=7000 + 13 * j,
                        gain=[250, -250, 450, -450, 120, -300][j % 6], chan_gain=[-30, 30, -250, 200][j % 4],
                        unit=['s', 'ms', 'us'][j % 3], iv=[2.0, 1.0, 100.0][j % 3]))
    return out


def lopsided_experiments(spec):
    """scale-free outputs (z-score, percent change, correlation coefficients, normalised cross-correlation, Hilbert phase) on
    integer data with a LARGE BASELINE (level 2^20..2^24, fluctuation of a few counts): against exact rational arithmetic,
    tolerance = the conditioning eps*level/sigma of any two-pass formula (a one-pass E[x^2]-E[x]^2 loses eps*level^2/sigma^2);
    and on the same data multiplied by exact powers of two — per recording (2^+-250, 2^+-450) and per channel (one channel
    2^-30 / 2^-250 of the others): bit-for-bit the answer for the unscaled data up to 8 eps (power-of-two gains commute with rounding)."""
    TS, A = _ts(), _an()
    rs = np.random.RandomState(spec['seed'])
    n, L, amp = spec['n'], spec['level'], spec['amp']
    C = 3
    fl = rs.randint(-amp, amp + 1, size=(C, n)).astype(np.int64)
    fl[1] += np.roll(fl[0], 1)                     # correlated channels
    xi = fl + L
    x = xi.astype(np.float64)
    fails = []
    meta = {'op': 'lopsided', 'spec': spec}

    def fail(key, what):
        fails.append(Failure('lopsided/' + key, '%s  [n=%d level=2^%d fluctuation +-%d gain=2^%d channel gain=2^%d unit=%s]' % (
            what, n, int(math.log2(L)), amp, spec['gain'], spec['chan_gain'], spec['unit']), {'meta': meta}))

    def mk(d):
        return TS.TimeSeries(np.array(d, dtype=np.float64), sampling_interval=spec['iv'], time_unit=spec['unit'])

    def attempt(key, fn):
        try:
            fn()
        except Exception as e:  # noqa
            fail(key + '/raises', 'raised %r' % (e,))
    # exact moments
    means = [Fr(int(r.sum()), n) for r in xi]
    var = [sum((Fr(int(v)) - m) ** 2 for v in r) / n for r, m in zip(xi, means)]
    sig = [math.sqrt(v) for v in var]
    cond = max(L / s_ for s_ in sig)

    def norm():
        z = np.asarray(A.NormalizationAnalyzer(mk(x)).z_score.data)
        want = np.array([[float((Fr(int(v)) - m)) / s_ for v in r] for r, m, s_ in zip(xi, means, sig)])
        tol = 16 * EPS * cond + 1e-13
        if z.shape != want.shape or not (np.abs(z - want) <= tol).all():
            fail('NormalizationAnalyzer/z_score/exact', 'z-score differs from (x - mean)/std in rational arithmetic by %g (conditioning eps*level/sigma allows %g)' % (
                float(np.abs(z - want).max()), tol))
        pc = np.asarray(A.NormalizationAnalyzer(mk(x)).percent_change.data)
        want = np.array([[float((Fr(int(v)) / m - 1) * 100) for v in r] for r, m in zip(xi, means)])
        if pc.shape != want.shape or not (np.abs(pc - want) <= 100 * 8 * EPS).all():
            fail('NormalizationAnalyzer/percent_change/exact', 'percent change differs from (x/mean - 1)*100 in rational arithmetic by %g' % float(np.abs(pc - want).max()))
    attempt('NormalizationAnalyzer', norm)

    def corr():
        cc = np.asarray(A.CorrelationAnalyzer(mk(x)).corrcoef)
        for i in range(C):
            for j in range(i, C):
                r = 1.0 if i == j else exact_r(xi, i, j)
                if abs(cc[i, j] - r) > 16 * EPS * cond + 1e-13:
                    fail('CorrelationAnalyzer/corrcoef/exact', 'corrcoef[%d,%d] = %r, from exact rational moments %r' % (i, j, float(cc[i, j]), r))
        sd = TS.TimeSeries(x[0].copy(), sampling_interval=spec['iv'], time_unit=spec['unit'])
        sc = np.asarray(A.SeedCorrelationAnalyzer(sd, mk(x)).corrcoef)
        for j in range(1, C):
            r = exact_r(xi, 0, j)
            if abs(sc[j] - r) > 16 * EPS * cond + 1e-13:
                fail('SeedCorrelationAnalyzer/corrcoef/exact', 'corrcoef[%d] = %r, from exact rational moments %r' % (j, float(sc[j]), r))
    attempt('CorrelationAnalyzer', corr)

    # powers of two: whole recording, and one channel against the others
    g = 2.0 ** spec['gain']
    cg = np.array([1.0, 2.0 ** spec['chan_gain'], 1.0])[:, None]
    y = fl.astype(np.float64)                      # the fluctuation itself (squares of level*2^450 would overflow: outside the quantifier)

    def scale_free(key, getter):
        base = getter(y)
        for tag, d in (('recording-gain', y * g), ('channel-gain', y * cg)):
            got = getter(d)
            sc_ = float(np.abs(base[np.isfinite(base)]).max()) if np.isfinite(base).any() else 1.0
            if got.shape != base.shape or not (np.isfinite(got) == np.isfinite(base)).all() or not (np.abs(got - base)[np.isfinite(base)] <= 8 * EPS * sc_).all():
                fail('%s/%s' % (key, tag), 'a scale-free output changes when the data are multiplied by an exact power of two (largest change %g of %g)' % (
                    float(np.nanmax(np.abs(got - base))) if got.shape == base.shape else float('nan'), sc_))
    attempt('NormalizationAnalyzer/z_score', lambda: scale_free('NormalizationAnalyzer/z_score', lambda d: np.asarray(A.NormalizationAnalyzer(mk(d)).z_score.data)))
    attempt('CorrelationAnalyzer/corrcoef', lambda: scale_free('CorrelationAnalyzer/corrcoef', lambda d: np.asarray(A.CorrelationAnalyzer(mk(d)).corrcoef)))
    attempt('CorrelationAnalyzer/xcorr_norm', lambda: scale_free('CorrelationAnalyzer/xcorr_norm',
                                                                 lambda d: np.asarray(A.CorrelationAnalyzer(mk(d)).xcorr_norm.data)[np.triu_indices(C)]))
    attempt('SeedCorrelationAnalyzer/corrcoef', lambda: scale_free('SeedCorrelationAnalyzer/corrcoef', lambda d: np.asarray(A.SeedCorrelationAnalyzer(
        TS.TimeSeries(np.array(d[0]), sampling_interval=spec['iv'], time_unit=spec['unit']), mk(d)).corrcoef)))
    return fails


# ------------------------------------------------------------------------------------------------ L3: FilterAnalyzer.filtfilt(b, a, in_ts=other)
def ints_specs(seed, tier):
    axes = [('s', 2.0, 0.0), ('ms', 1.0, 5.0), ('us', 250.0, -3.0), ('s', 0.5, 10.0), ('ms', 813.27, 0.0)]
    out = []
    for i in range(3 if tier == 'quick' else 15):
        j = seed + i
        a, b = axes[j % 5], axes[(j + 1 + i % 3) % 5]
        out.append(dict(own=a, other=b, n_own=[64, 97, 50][j % 3], n_other=[80, 45, 131][(j + 1) % 3], dim=[1, 2][j % 2], seed=9000 + j,
                        kind=['fir', 'iir', 'fir'][j % 3]))
    return out


def ints_experiments(spec):
    """the documented `in_ts` argument: "instead of analyzing this analyzer's input data, analyze some other time-series
    object" -- the result is that OTHER series filtered, on the OTHER series' time axis (interval, unit, t0, length)"""
    import scipy.signal as signal
    TS, A = _ts(), _an()
    C15 = _c15()
    rs = np.random.RandomState(spec['seed'])
    fails = []
    meta = {'op': 'in_ts', 'spec': spec}

    def fail(sym, what):
        fails.append(Failure('FilterAnalyzer/filtfilt/in_ts/' + sym, '%s  [analyzer built on unit=%s interval=%r t0=%r n=%d; in_ts unit=%s interval=%r t0=%r n=%d]' % (
            (what,) + tuple(spec['own']) + (spec['n_own'],) + tuple(spec['other']) + (spec['n_other'],)), {'meta': meta}))

    def mk(ax, n):
        shape = (2, n) if spec['dim'] == 2 else (n,)
        return TS.TimeSeries(rs.randn(*shape) + 5.0, sampling_interval=ax[1], time_unit=ax[0], t0=ax[2])
    T, U = mk(spec['own'], spec['n_own']), mk(spec['other'], spec['n_other'])
    if spec['kind'] == 'fir':
        b, a = signal.firwin(9, 0.3), [1.0]
    else:
        b, a = signal.butter(2, 0.3)
    u0 = np.array(U.data)
    try:
        O = A.FilterAnalyzer(T, lb=0.01).filtfilt(b, a, in_ts=U)
    except Exception as e:  # noqa
        fail('raises', 'raised %r' % (e,))
        return fails
    ao, au = C15.axis_of(O), C15.axis_of(U)
    for f in ('unit', 'dt', 't0', 'n'):
        if ao[f] != au[f]:
            fail({'unit': 'time_unit', 'dt': 'sampling_interval', 't0': 't0', 'n': 'n'}[f], 'result has %s = %r, the series given as in_ts has %r' % (f, ao[f], au[f]))
    if abs(ao['fs'] - au['fs']) > 1e-12 * au['fs']:
        fail('sampling_rate', 'result rate %r Hz, in_ts rate %r Hz' % (ao['fs'], au['fs']))
    x2 = np.atleast_2d(u0)
    want = np.array([(lambda y, r: y - y.mean() + r.mean())(signal.filtfilt(b, a, r), r) for r in x2]).reshape(u0.shape)
    got = np.asarray(O.data)
    if got.shape != want.shape or not (np.abs(got - want) <= 1e-9 * np.abs(want).max()).all():
        fail('data', 'result is not the in_ts data filtered (scipy filtfilt, mean restored)')
    if not np.array_equal(np.asarray(U.data), u0):
        fail('input-mutated', 'the series given as in_ts was changed')
    return fails


# ------------------------------------------------------------------------------------------------ L3: band edges ON the grid
# (unit, interval in unit, n, k_lb, k_ub): round numbers first (TR = 2 s x 200 volumes: bins of 1/400 Hz, 0.01 Hz = bin 4,
# 0.1 Hz = bin 40; 1 ms x 1000 samples: 1 Hz bins; TR 2.5 s x 160; TR 1 s x 100; 4 ms x 250; 2 ms x 500; TR 0.5 s x 240)
ROUND_GRIDS = [('s', 2.0, 200, 4, 40), ('ms', 1.0, 1000, 8, 12), ('s', 2.5, 160, 4, 40), ('s', 1.0, 100, 5, 25), ('ms', 4.0, 250, 8, 30),
               ('ms', 2.0, 500, 8, 12), ('s', 0.5, 240, 6, 60), ('s', 2.0, 100, 2, 20), ('s', 2.0, 201, 3, 67), ('ms', 10.0, 125, 8, 40),
               ('s', 1.5, 120, 9, 45), ('us', 500.0, 400, 10, 100)]
EDGE_FORMS = ['on', 'below', 'above']
UB_FORMS = ['on', 'below', 'above', 'none', 'nyquist']


def nudge(g, form):
    return {'on': g, 'below': float(np.nextafter(g, -np.inf)), 'above': float(np.nextafter(g, np.inf))}[form]


def unambiguous(n, dt_ps, k, rate):
    """every plausible binary64 formula for bin k gives the correctly rounded true frequency (no ulp tie possible)"""
    g = float(Fr(k * 10**12, n * dt_ps))
    Fs = float(Fr(10**12, dt_ps))
    if rate != Fs:
        return False
    forms = [k * Fs / n, (k / n) * Fs, k * (Fs / n), (k * (1.0 / n)) * Fs, float(np.fft.rfftfreq(n)[k]) * Fs, float(np.fft.rfftfreq(n, 1.0 / Fs)[k]),
             float(np.linspace(0, Fs / 2, n // 2 + 1)[k]) if n % 2 == 0 else g]
    return all(v == g for v in forms)


def ongrid_specs(seed, tier):
    rr = __import__('random').Random('C15-ongrid-%d' % seed)
    out = []
    nround = 5 if tier == 'quick' else len(ROUND_GRIDS) * 3
    for i in range(nround):
        unit, iv, n, k1, k2 = ROUND_GRIDS[(seed * 5 + i) % len(ROUND_GRIDS)]
        if i >= len(ROUND_GRIDS) or (i % 2 and seed % 2):
            k1 = rr.randint(1, n // 2 - 2)
            k2 = rr.randint(k1 + 1, n // 2 - 1)
        out.append(dict(unit=unit, iv=iv, n=n, k1=k1, k2=k2))
    for i in range(4 if tier == 'quick' else 30):                     # dyadic grids: every float formula is exact
        n = rr.choice([32, 64, 128, 256])
        iv = rr.choice([0.5, 2.0, 0.25, 1.0, 4.0])
        k1 = rr.randint(1, n // 2 - 2)
        out.append(dict(unit='s', iv=iv, n=n, k1=k1, k2=rr.randint(k1, n // 2 - 1)))
    for i in range(3 if tier == 'quick' else 30):                     # arbitrary lengths / intervals, kept when unambiguous
        n = rr.choice([90, 150, 144, 250, 81, 99, 180, 360, 75, 125])
        unit, iv = rr.choice([('s', 2.0), ('s', 1.0), ('ms', 500.0), ('ms', 1.0), ('s', 3.0), ('s', 0.72), ('ms', 2.5), ('us', 250.0)])
        k1 = rr.randint(1, n // 2 - 2)
        out.append(dict(unit=unit, iv=iv, n=n, k1=k1, k2=rr.randint(k1 + 1, n // 2 - 1)))
    specs = []
    for j, sp in enumerate(out):
        sp['seed'] = rr.randrange(10**6)
        # lb on / just below / just above bin k1; ub likewise on k2, or None, or the explicit Nyquist; lb = 0 as the immune case
        forms = [(EDGE_FORMS[(j + seed) % 3], UB_FORMS[(j // 3 + seed) % 5]), ('on', 'on' if j % 2 else 'none')]
        if j % 4 == 0:
            forms.append(('zero', UB_FORMS[(j + 1) % 3]))
        for lf, uf in forms:
            specs.append(dict(sp, lbf=lf, ubf=uf, dim=[1, 2][(j + len(specs)) % 2], via=['analyzer', 'reader'][(j + len(specs) + seed) % 2] if sp['unit'] == 's' else 'analyzer'))
    return specs


def ongrid_setup(spec):
    """-> (data (C, n), dt_ps, lb, ub, g) or None when the configuration is not tie-free"""
    TS = _ts()
    n = spec['n']
    T0 = TS.TimeSeries(np.zeros(n), sampling_interval=spec['iv'], time_unit=spec['unit'])
    dt_ps = _c15().axis_of(T0)['dt']
    rate = float(T0.sampling_rate)
    if not (unambiguous(n, dt_ps, spec['k1'], rate) and unambiguous(n, dt_ps, spec['k2'], rate)):
        return None
    g = true_bins(n, dt_ps)
    lb = 0.0 if spec['lbf'] == 'zero' else nudge(g[spec['k1']], spec['lbf'])
    ub = None if spec['ubf'] == 'none' else float(Fr(10**12, 2 * dt_ps)) if spec['ubf'] == 'nyquist' else nudge(g[spec['k2']], spec['ubf'])
    if ub is not None and not lb < ub:
        return None
    rs = np.random.RandomState(spec['seed'])
    C = 3 if spec['dim'] == 2 or spec['via'] == 'reader' else 1
    t = np.arange(n)
    d = rs.randn(C, n) * 0.5 + rs.uniform(800, 1000, (C, 1))
    for c in range(C):      # unit-amplitude components ON the edge bins (what a dropped bin removes), one inside, one outside
        for k, amp in ((spec['k1'], 1.0), (spec['k2'], 1.5), ((spec['k1'] + spec['k2']) // 2, 0.7), (max(spec['k1'] - 1, 1), 2.0)):
            d[c] += amp * np.cos(2 * np.pi * k * t / n + 0.3 * c + 0.1 * k)
    return d, dt_ps, lb, ub, g


def ongrid_run(spec, d, lb, ub):
    """the real code: analyzer, or the file reader on a NIfTI volume holding the rows of d as voxels"""
    TS, A = _ts(), _an()
    if spec['via'] == 'analyzer':
        x = d if spec['dim'] == 2 else d[0]
        T = TS.TimeSeries(x.copy(), sampling_interval=spec['iv'], time_unit=spec['unit'], t0=3 * spec['iv'])
        F = A.FilterAnalyzer(T, lb=lb, ub=ub)
        O = F.filtered_fourier
        return np.atleast_2d(np.asarray(O.data)), O, T
    import nibabel as nib
    from nitime.fmri import io
    C15 = _c15()
    vol = np.zeros((2, 2, 2, d.shape[1]))
    coords = [[0, 1, 1], [1, 0, 1], [0, 1, 1]]
    for c in range(3):
        vol[coords[0][c], coords[1][c], coords[2][c]] = d[c]
    p = os.path.join(C15.tmpdir(), 'ongrid_%d_%d.nii' % (spec['seed'], spec['n']))
    img = nib.Nifti1Image(vol, np.eye(4))
    img.header.set_zooms((1, 1, 1, float(spec['iv'])))
    nib.save(img, p)
    flt = {'method': 'fourier', 'lb': lb}
    if ub is not None or spec['seed'] % 2:
        flt['ub'] = ub
    R = io.time_series_from_file(p, np.array(coords), TR=spec['iv'], filter=flt)
    stored = nib.load(p).get_fdata()
    return np.asarray(R.data), R, np.array([stored[coords[0][c], coords[1][c], coords[2][c]] for c in range(3)])


def ongrid_experiments(spec):
    st = ongrid_setup(spec)
    if st is None:
        return None
    d, dt_ps, lb, ub, g = st
    fails = []
    meta = {'op': 'ongrid', 'spec': spec}
    where = 'time_series_from_file/filter-fourier' if spec['via'] == 'reader' else 'FilterAnalyzer/filtered_fourier'

    def fail(sym, what):
        fails.append(Failure('ongrid/%s/lb-%s/ub-%s/%s' % (where, spec['lbf'], spec['ubf'], sym),
                             '%s  [unit=%s interval=%r n=%d lb=%r (bin %d %s) ub=%r (bin %d %s) bin width %r Hz]' % (
                                 what, spec['unit'], spec['iv'], spec['n'], lb, spec['k1'], spec['lbf'], ub, spec['k2'], spec['ubf'], g[1]), {'meta': meta}))
    try:
        got, O, src = ongrid_run(spec, d, lb, ub)
    except Exception as e:  # noqa
        fail('raises', 'raised %r' % (e,))
        return fails
    x = src if spec['via'] == 'reader' else d[:got.shape[0]]
    want, keep = band_projection(np.asarray(x, dtype=float), g, lb, ub)
    if got.shape != want.shape:
        fail('shape', 'result has shape %r, expected %r' % (got.shape, want.shape))
        return fails
    err = float(np.abs(got - want).max())
    if not err <= 1e-9 * float(np.abs(x).max()):
        # name the bins: project the difference
        D = np.abs(np.fft.fft(got - want, axis=-1)).max(0) / spec['n']
        bins = sorted(set(int(min(k, spec['n'] - k)) for k in np.where(D > 1e-7)[0]))
        fail('band', 'filtered data differ from the projection on the closed band [lb, ub] by %g: bins %r are treated differently (kept by definition: %r)' % (
            err, bins[:6], [b for b in bins[:6] if keep[b]]))
    a = _c15().axis_of(O)
    if a['dt'] != dt_ps or a['n'] != spec['n'] or a['unit'] != spec['unit'] and spec['via'] == 'analyzer':
        fail('axis', 'result axis: interval %d ps, n %d, unit %s' % (a['dt'], a['n'], a['unit']))
    return fails


# ---- correspondence with the Lean model: WHICH bins the band keeps (`Model/C15Band.lean`)
def observed_mask(spec, lb, ub):
    """the code's pass band seen from outside: filter a unit impulse (plus an offset), the DFT of the output is the 0/1 mask"""
    TS, A = _ts(), _an()
    n = spec['n']
    x = np.zeros(n)
    x[1] = 1.0
    T = TS.TimeSeries(x, sampling_interval=spec['iv'], time_unit=spec['unit'])
    y = np.asarray(A.FilterAnalyzer(T, lb=lb, ub=ub).filtered_fourier.data)
    m = np.abs(np.fft.fft(y))
    return [int(v > 0.5) for v in m[:n // 2 + 1]]


def band_case(spec):
    st = ongrid_setup(spec)
    if st is None:
        return None
    d, dt_ps, lb, ub, g = st
    n = spec['n']
    try:
        mask = observed_mask(spec, lb, ub)
        impl = 'ok ' + ''.join(str(b) for b in mask)
    except Exception as e:  # noqa
        impl = 'err ' + type(e).__name__
    Fs = float(Fr(10**12, dt_ps))
    line = 'C15 band %d %s %s %s' % (n, f2x(Fs), f2x(lb), '-' if ub is None else f2x(ub))
    return Case(line, impl, 'FilterAnalyzer/filtered_fourier/band-on-grid', meta={'op': 'band', 'spec': spec})


def judge_band(c):
    """the observed mask against the closed band on the correctly rounded true bin frequencies"""
    spec = c.meta['spec']
    st = ongrid_setup(spec)
    if st is None:
        return []
    d, dt_ps, lb, ub, g = st
    want = [int(m == 0 or (lb <= g[m] and (ub is None or g[m] <= ub))) for m in range(spec['n'] // 2 + 1)]
    try:
        got = observed_mask(spec, lb, ub)
    except Exception as e:  # noqa
        return [Failure('ongrid/FilterAnalyzer/filtered_fourier/mask/raises', 'raised %r' % (e,), {'meta': c.meta}, case=c)]
    if got != want:
        diff = [m for m in range(len(want)) if got[m] != want[m]]
        return [Failure('ongrid/FilterAnalyzer/filtered_fourier/lb-%s/ub-%s/mask' % (spec['lbf'], spec['ubf']),
                        'pass band seen on a unit impulse: bins %r are %s although lb=%r <= f <= ub=%r says otherwise (bin %d = %r Hz, bin %d = %r Hz) [unit=%s interval=%r n=%d]' % (
                            diff[:6], 'dropped' if want[diff[0]] else 'kept', lb, ub, spec['k1'], g[spec['k1']], spec['k2'], g[spec['k2']],
                            spec['unit'], spec['iv'], spec['n']), {'meta': c.meta}, case=c)]
    return []


R4_JUDGES = {'band': judge_band}


BAND_MODEL = True       # set when `Model/C15Band.lean` answers `C15 band ...` (until then the masks are judged by the oracle only)


def band_specs(seed, tier):
    return [dict(sp, via='analyzer', dim=1) for sp in ongrid_specs(seed, tier)]


def r4_cases(rng, tier, seed):
    out = []
    if not BAND_MODEL:
        return out
    for sp in band_specs(seed, tier):
        c = band_case(sp)
        if c is not None:
            out.append(c)
    return out


def r4_oracle(rng, tier, seed):
    fails = []
    nl = ng = skipped = 0
    for sp in large_specs(seed, tier):
        fails += large_experiments(sp)
        nl += 1
    for sp in ongrid_specs(seed, tier):
        f = ongrid_experiments(sp)
        if f is None:
            skipped += 1
        else:
            ng += 1
            fails += f
    nlop = 0
    for sp in lopsided_specs(seed, tier):
        fails += lopsided_experiments(sp)
        nlop += 1
    for sp in ints_specs(seed, tier):
        fails += ints_experiments(sp)
    nb = 0
    if not BAND_MODEL:
        for sp in band_specs(seed, tier):
            if ongrid_setup(sp) is not None:
                fails += judge_band(Case('', '', '', meta={'op': 'band', 'spec': sp}))
                nb += 1
    return fails, {'large_recordings': nl, 'ongrid_configs': ng, 'ongrid_skipped_ties': skipped, 'masks_oracle_only': nb, 'lopsided_recordings': nlop}


def r4_replay(m):
    if m['op'] == 'large':
        return large_experiments(m['spec'])
    if m['op'] == 'lopsided':
        return lopsided_experiments(m['spec'])
    if m['op'] == 'in_ts':
        return ints_experiments(m['spec'])
    if m['op'] == 'ongrid':
        return ongrid_experiments(m['spec']) or []
    return []
