"""C08 — coherence measures are bounded, symmetric and invariant to channel gain; partial coherence
equals the inverse-spectral-matrix value.

Correspondence: the executable model `Nitime.C08` (Lean, `CohBase.lean` at K = pairs of binary64:
naive DFT, Welch segment averaging as mlab.csd does, the coherence layer of cohere.py, the
multitaper cross-spectrum of the MT analyzer) against the real API, function level and analyzers.
Oracle (never the Lean model): bounds, self-coherence, Hermitian symmetry, |coherency|^2 = coherence,
phase / delay antisymmetry, the gain metamorphic relation, and numpy.linalg.inv of the 3-channel
spectral matrix for partial coherence.
"""
import math
import warnings
import numpy as np
import blas1  # noqa: one BLAS thread (oversubscribed machines: 9 s per small dense solve otherwise)
from common import Case, Failure, f2x, flist, clist, parse_flist, np_rng

PID = 'C08'
LEAN_TARGETS = ['Nitime.Props.C08', 'Nitime.Props.C08Cache', 'Nitime.Props.C08Layout']
RULE = ('scenarios from one PRNG state: 2..5 coupled channels (common cause + sinusoids + noise; amplitudes 1e-9..1e4), gains 1e-9..1e6 of both signs, explicit n_overlap=0, lengths 64..256 (quick) / ..2048 '
        '(thorough); Welch with NFFT of both parities, explicit/default overlap, hanning/array windows; multitaper (fixed, adaptive) and '
        'periodogram through get_spectra; CoherenceAnalyzer and MTCoherenceAnalyzer; bands lb/ub on and off the grid; every scenario '
        'yields one case per observable (coherency, coherence, phase, delay, band averages, partial); distinct = distinct protocol line; '
        'degenerate spectra (single segment for partial coherence, relative spectral floor < 1e-7) are skipped and counted; per-channel amplitudes 1e-12..1e12; '
        'session 3: getter read HISTORIES on all four coherence analyzers (seeded orders, everything handed out kept and re-inspected, judged by the bounds / symmetry '
        'oracle), the cache path (cache_fft + cache_to_coherency, Sparse / Seed analyzers with 1..3 seeds, pair lists with repeats / reversed / self pairs) against the '
        'function-level coherency, int16/int32/int64/uint8/float32/big-endian/read-only/Fortran/strided representations of the data; '
        'round 4: a FIXED method x attribute matrix in every run (welch NFFT/n_overlap 16/8, 32/0, 33/11, 64/default; multi_taper_csd fixed and adaptive; periodogram_csd; '
        'channel counts rotated by the seed, >= 3 for the multitaper entries), every CoherenceAnalyzer attribute against the function-level API on the same data and method, '
        'coherence_partial of BOTH APIs for every method judged on the spectra the analyzer itself exposes (numpy.linalg.inv), lopsided exact gains +-2^{-30,0,30} per channel '
        'on Coherence / Sparse / Seed / MT analyzers and the function level; periodogram_csd partial coherence is degenerate (rank-1 spectral matrix, coherence = 1) and skipped')
ASSUMPTIONS = ['real-valued input, 0 <= n_overlap < NFFT, Fs > 0, real window with non-zero energy',
               'spectra are non-degenerate: cases whose auto-spectra fall below 1e-7 of their maximum, or whose partial-coherence '
               'denominators fall below 1e-6, are skipped and counted (the theorems carry the corresponding hypotheses f_xx != 0 etc.)',
               'the signed-zero behaviour of np.angle at arg = pi is not modelled (phases are compared on the circle)']
TRUSTED_EXTRA = ['reads op: the jackknife variance and the t quantiles of MTCoherenceAnalyzer.confidence_interval enter the getter object model as data',
                 'matplotlib.mlab.csd = Welch segment-averaged windowed periodogram, detrend none, one-sided doubling, /Fs, /sum(window^2) (model: welchBin)',
                 'scipy.fftpack.fft / np.fft.fft = DFT (model: naive O(N^2) sum, segFft)',
                 'np.sqrt on complex128 = principal square root; np.angle = atan2(im, re); np.hanning',
                 'multi_taper_csd is modelled by the spectral model (Nitime.Model.C04 multiTaperCsdList; DPSS tapers and adaptive weights enter as data, see C04/C07); '
                 'periodogram_csd cases and the MT analyzer start from the spectra / tapered spectra / weights the implementation exposes',
                 'reading of the CScalar-polymorphic definitions at K = Complex (theorems) vs K = binary64 pairs (run): parametricity, unproved']

RTOL = 1e-9
BOUND_TOL = 1e-9


def tsa():
    import nitime.algorithms as a
    return a


# ------------------------------------------------------------------ comparison
def close_gen(a, b, rtol=RTOL):
    """finite entries: |a-b| <= rtol*scale (scale = largest finite magnitude); non-finite entries must
    be non-finite of the same kind on both sides"""
    if len(a) != len(b):
        return False
    fin = [abs(x) for x in list(a) + list(b) if math.isfinite(x)]
    scale = max(fin) if fin else 1.0
    tol = rtol * max(scale, 1e-300)
    for x, y in zip(a, b):
        fx, fy = math.isfinite(x), math.isfinite(y)
        if fx and fy:
            if abs(x - y) > tol:
                return False
        elif fx != fy:
            return False
        elif (x != x) != (y != y):
            return False
        elif x == x and y == y and x != y:      # both infinite: same sign
            return False
    return True


def circ(d):
    return abs((d + math.pi) % (2 * math.pi) - math.pi)


def cmp_vec(impl, model):
    if not (impl.startswith('ok ') and model.startswith('ok ')):
        return impl == model
    ti, tm = impl.split(' '), model.split(' ')
    if len(ti) != len(tm):
        return False
    for a, b in zip(ti[1:], tm[1:]):
        if a[0] != 'x' and a != '-':
            if a != b:
                return False
        elif not close_gen(parse_flist(a), parse_flist(b)):
            return False
    return True


def cmp_abs_c(impl, model):
    """complex vectors compared by magnitude only"""
    if not (impl.startswith('ok ') and model.startswith('ok ')):
        return impl == model
    a, b = parse_flist(impl.split(' ')[-1]), parse_flist(model.split(' ')[-1])
    if len(a) != len(b):
        return False
    ma = [math.hypot(a[i], a[i + 1]) for i in range(0, len(a), 2)]
    mb = [math.hypot(b[i], b[i + 1]) for i in range(0, len(b), 2)]
    return close_gen(ma, mb)


def mk_cmp_phase(weights, tol=1e-6):
    """phases compared on the circle; entries whose cross-spectrum is tiny (weight 0) are ill-conditioned and skipped"""
    def cmp(impl, model):
        if not (impl.startswith('ok ') and model.startswith('ok ')):
            return impl == model
        a, b = parse_flist(impl.split(' ')[-1]), parse_flist(model.split(' ')[-1])
        if len(a) != len(b) or len(a) != len(weights):
            return False
        if impl.split(' ')[1:-1] != model.split(' ')[1:-1]:
            return False
        return all(w == 0 or circ(x - y) <= tol for x, y, w in zip(a, b, weights))
    return cmp


def mk_cmp_delay(twopif, weights, tol=1e-6):
    def cmp(impl, model):
        if not (impl.startswith('ok ') and model.startswith('ok ')):
            return impl == model
        a, b = parse_flist(impl.split(' ')[-1]), parse_flist(model.split(' ')[-1])
        if len(a) != len(b) or len(a) != len(weights):
            return False
        if impl.split(' ')[1:-1] != model.split(' ')[1:-1]:
            return False
        for x, y, w, g in zip(a, b, weights, twopif):
            if w == 0 or g == 0:
                continue
            if not (math.isfinite(x) and math.isfinite(y)):
                return False
            if circ((x - y) * g) > tol:
                return False
        return True
    return cmp


# ------------------------------------------------------------------ scenarios
def gen_data(nr, nch, n):
    """coupled channels: a common cause, shared sinusoids with delays, independent noise"""
    t = np.arange(n)
    common = nr.randn(n)
    X = []
    for c in range(nch):
        a = nr.uniform(0.2, 1.5)
        lag = int(nr.randint(0, 6))
        x = a * np.roll(common, lag) + nr.uniform(0.3, 1.2) * nr.randn(n)
        if nr.rand() < 0.6:
            x = x + nr.uniform(0.5, 2) * np.sin(2 * np.pi * nr.uniform(0.02, 0.45) * t + nr.uniform(0, 6))
        if nr.rand() < 0.3:
            x = x + nr.uniform(-2, 2)        # a DC offset
        X.append(x)
    return np.array(X)


def gen_filtered(nr, nch, n):
    """strongly coherent channels with differently shaped, high-dynamic-range spectra: a resonant AR(2) signal and linearly
    filtered copies of it plus a little noise (per-channel adaptive multitaper weights then differ between the channels)"""
    from scipy.signal import lfilter
    e = nr.randn(n + 300)
    r_, th = nr.uniform(0.9, 0.97), nr.uniform(0.3, 2.5)
    x = lfilter([1.0], [1.0, -2 * r_ * np.cos(th), r_ * r_], e)[300:]
    X = [x]
    for c in range(1, nch):
        y = lfilter([1.0, nr.uniform(-0.95, 0.95)], [1.0, -nr.uniform(-0.9, 0.9)], x)
        X.append(y + 1e-3 * np.std(y) * nr.randn(n))
    return np.array(X)


def gen_band(rng, f):
    """lb, ub on or off the grid; ub may be None"""
    k = len(f)
    c = rng.random()
    if c < 0.25:
        return 0.0, None
    i = rng.randrange(0, max(1, k - 2))
    j = rng.randrange(i + 1, k)
    lb = float(f[i]) if rng.random() < 0.5 else float(f[i]) + 0.4 * float(f[1] - f[0])
    ub = float(f[j]) if rng.random() < 0.5 else float(f[j]) - 0.3 * float(f[1] - f[0])
    if rng.random() < 0.2:
        lb = 0.0
    if rng.random() < 0.15:
        ub = None
    if ub is not None and ub < lb:
        ub = lb
    return lb, ub


def make_scenarios(rng, tier, seed):
    nr = np_rng(PID, seed, 'data')
    big = tier == 'thorough'
    out = []
    n_w = 60 if big else 22
    n_long = 0
    for s in range(n_w):
        nch = rng.choice([2, 3, 4, 4, 5, 5])
        NFFT = rng.choice([8, 16, 16, 32, 32, 64, 7, 15, 33] if not big else [8, 16, 32, 64, 64, 128, 7, 15, 33, 63])
        n = rng.choice([64, 96, 128, 200, 256] if not big else [64, 128, 256, 500, 1024, 2048])
        if big and n >= 1024 and NFFT < 32:
            NFFT = 64
        c = rng.random()
        nov = None if c < 0.3 else (0 if c < 0.4 else rng.randrange(0, NFFT))      # explicit 0 is a value, not "unset"
        if rng.random() < 0.08:
            n = rng.randrange(NFFT // 2 + 1, NFFT + 2)       # at most one segment, zero padded
        if n > 256:
            # long records: the model's segment FFT is the naive O(NFFT^2) sum (array-backed reads), so keep the
            # number of segments of a long record near 60 and the number of long records per run bounded (the twiddle factors are recomputed per term)
            n_long += 1
            if n_long > 10:
                n = rng.choice([128, 200, 256])
            else:
                nch = min(nch, 4)
                min_step = min(NFFT, (n - NFFT) // 60 + 1)
                if nov is None and NFFT - NFFT // 2 < min_step:
                    nov = NFFT // 2
                if nov is not None and NFFT - nov < min_step:
                    nov = NFFT - min_step
        wk = rng.choice(['hann', 'hann', 'hamming', 'boxcar', 'rand'])
        Fs = rng.choice([1.0, 2.0, 2 * math.pi, 10.0, 0.5, 250.0, rng.uniform(0.1, 100)])
        data = gen_data(nr, nch, n)
        if rng.random() < 0.3:        # tiny / very different channel amplitudes: nothing may be floored at an epsilon
            data = data * np.array([10.0 ** rng.choice([-12, -9, -7, -5, -3, 0, 3, 6, 9, 12]) for _ in range(nch)])[:, None]
        out.append({'kind': 'welch', 'data': data.tolist(), 'NFFT': NFFT, 'nov': nov, 'win': wk, 'hseed': rng.randint(0, 10 ** 6),
                    'winvals': None if wk == 'hann' else win_vals(wk, NFFT, nr), 'Fs': Fs, 'band_u': [rng.random() for _ in range(8)]})
    # both sides of the guards in the anchored code (class L7): CoherenceAnalyzer warns when n < NFFT + n_overlap ("all coherence
    # values will be 1"), the true single-window condition is n < 2*NFFT - n_overlap; they differ as soon as n_overlap != NFFT/2
    for s in range(12 if big else 4):
        NFFT = rng.choice([16, 32, 64])
        nov = rng.choice([NFFT // 2 + 1, 3 * NFFT // 4, NFFT - 2, NFFT - 1, NFFT // 4, NFFT // 2])
        a_, b_ = NFFT + nov, 2 * NFFT - nov
        n = max(NFFT // 2 + 1, rng.choice([a_ - 1, a_, a_ + 1, b_ - 1, b_, b_ + 1, (a_ + b_) // 2, (a_ + b_) // 2 + 1]))
        if NFFT - nov < 3 and n > NFFT + 40:
            n = NFFT + 40                 # keep the number of segments of the naive model moderate
        nch = rng.choice([2, 3, 3])
        out.append({'kind': 'welch', 'data': gen_data(nr, nch, n).tolist(), 'NFFT': NFFT, 'nov': nov, 'win': 'hann', 'hseed': rng.randint(0, 10 ** 6),
                    'winvals': None, 'Fs': rng.choice([1.0, 2.0, 10.0]), 'band_u': [rng.random() for _ in range(8)], 'guard': True})
    for s in range(14 if big else 5):
        nch = rng.choice([2, 3, 4, 4, 5])
        n = rng.choice([64, 100, 128, 255] if not big else [64, 128, 255, 512, 1024])
        Fs = rng.choice([1.0, 2 * math.pi, 10.0])
        amp = (10.0 ** rng.choice([-12, -8, -5, 0, 0, 4, 12])) if rng.random() < 0.4 else 1.0
        filt = s % 2 == 1         # every other scenario: filtered copies of one resonant signal, adaptive weights
        out.append({'kind': 'csd', 'method': 'multi_taper_csd_adaptive' if filt else rng.choice(['multi_taper_csd', 'multi_taper_csd_adaptive', 'periodogram_csd']),
                    'hseed': rng.randint(0, 10 ** 6),
                    'data': ((gen_filtered(nr, nch, n) if filt else gen_data(nr, nch, n)) * amp).tolist(), 'Fs': Fs, 'band_u': [rng.random() for _ in range(8)]})
    for s in range(10 if big else 4):
        nch = rng.choice([2, 3, 4, 4, 5])
        n = rng.choice([64, 101, 128] if not big else [64, 101, 128, 256, 513])
        amp = (10.0 ** rng.choice([-12, -8, -5, 0, 0, 4, 12])) if rng.random() < 0.4 else 1.0
        filt = s % 2 == 1
        data = (gen_filtered(nr, nch, n) if filt else gen_data(nr, nch, n)) * amp
        if rng.random() < 0.3:        # per-channel amplitudes (class L4)
            data = data * np.array([10.0 ** rng.choice([-6, -3, 0, 3, 6]) for _ in range(nch)])[:, None]
        out.append({'kind': 'mta', 'adaptive': True if filt else rng.random() < 0.5, 'data': data.tolist(), 'hseed': rng.randint(0, 10 ** 6),
                    'nw': rng.choice([None, None, 2, 3, 2.5]), 'alpha': rng.choice([0.05, 0.1, 0.01]),
                    'Fs': rng.choice([1.0, 2 * math.pi, 10.0])})
    out += method_matrix(nr, seed, big)
    return out


# every spectral method CoherenceAnalyzer accepts, in a FIXED order, in every run (not drawn): each of them goes through every
# observable of both APIs (cases_of / judge); the multitaper entries always have >= 3 channels (partial coherence)
METHOD_MATRIX = [('welch', {'NFFT': 16, 'nov': 8}), ('welch', {'NFFT': 32, 'nov': 0}), ('welch', {'NFFT': 33, 'nov': 11}), ('welch', {'NFFT': 64, 'nov': None}),
                 ('csd', 'multi_taper_csd'), ('csd', 'multi_taper_csd_adaptive'), ('csd', 'periodogram_csd')]


def method_matrix(nr, seed, big):
    out = []
    for e, (kind, opt) in enumerate(METHOD_MATRIX):
        multitaper = kind == 'csd' and opt.startswith('multi_taper')
        nch = 3 + (seed + e) % 3 if (multitaper or e == 0) else 2 + (seed + e) % 4
        n = 256 if (kind == 'welch' and opt['NFFT'] == 64) else (192 if big else 128)
        base = {'data': gen_data(nr, nch, n).tolist(), 'Fs': [1.0, 2 * math.pi, 10.0][(seed + e) % 3], 'hseed': 7919 * (seed + 1) + e, 'matrix': True,
                'band_u': [((seed * 7 + e * 3 + q * 5) % 17) / 17.0 for q in range(8)]}
        if kind == 'welch':
            base.update({'kind': 'welch', 'NFFT': opt['NFFT'], 'nov': opt['nov'], 'win': 'hann', 'winvals': None})
        else:
            base.update({'kind': 'csd', 'method': opt})
        out.append(base)
    return out


def win_vals(kind, NFFT, nr):
    if kind == 'hamming':
        return np.hamming(NFFT).tolist()
    if kind == 'boxcar':
        return np.ones(NFFT).tolist()
    return (0.2 + nr.rand(NFFT)).tolist()


class _R(object):
    """a deterministic replacement for rng inside scenario evaluation: band choices come from the stored uniforms"""

    def __init__(self, us):
        self.us, self.i = list(us), 0

    def random(self):
        v = self.us[self.i % len(self.us)]
        self.i += 1
        return v

    def randrange(self, a, b):
        return a + min(b - a - 1, int(self.random() * (b - a)))


def method_of(sc, analyzer=False):
    m = {'this_method': 'welch', 'NFFT': sc['NFFT'], 'Fs': sc['Fs']}
    if sc['nov'] is not None:
        m['n_overlap'] = sc['nov']
    if sc['winvals'] is not None:
        m['window'] = np.array(sc['winvals'])
    return m


def csd_method_of(sc):
    if sc['method'] == 'periodogram_csd':
        return {'this_method': 'periodogram_csd', 'Fs': sc['Fs']}
    return {'this_method': 'multi_taper_csd', 'Fs': sc['Fs'], 'adaptive': sc['method'].endswith('adaptive')}


def run(fn):
    import contextlib, io
    try:
        with warnings.catch_warnings():
            warnings.simplefilter('ignore')
            with np.errstate(all='ignore'), contextlib.redirect_stdout(io.StringIO()):      # the adaptive-weights routine prints
                return fn()
    except Exception as e:  # noqa
        import common
        return 'err ' + common.err_kind(e)


def impl_results(sc):
    """everything the real code returns for one scenario: name -> ndarray | tuple | 'err …'"""
    A = tsa()
    import nitime.timeseries as ts
    from nitime.analysis import CoherenceAnalyzer, MTCoherenceAnalyzer
    X = np.array(sc['data'], dtype=float)
    R = {}
    if sc['kind'] == 'mta':
        def mk():
            a = mt_make(sc, X)
            return {'coherence': np.array(a.coherence), 'spectra': np.array(a.spectra), 'weights': np.array(a.weights)}
        R['mta'] = run(mk)
        if X.shape[1] <= 256:
            R['reads'] = run(lambda: mt_reads(sc, X))
        return R
    if sc['kind'] == 'welch':
        m = lambda: method_of(sc)
    else:
        m = lambda: csd_method_of(sc)
    R['spectra'] = run(lambda: A.get_spectra(X, m()))
    if isinstance(R['spectra'], str):
        return R
    f = R['spectra'][0]
    lb, ub = gen_band(_R(sc['band_u']), f)
    R['band'] = (lb, ub)
    R['coherency'] = run(lambda: A.coherency(X, m()))
    R['coherence'] = run(lambda: A.coherence(X, m()))
    R['phase'] = run(lambda: A.coherency_phase_spectrum(X, m()))
    R['delay'] = run(lambda: A.coherency_phase_delay(X, lb, ub, m()))
    R['cohbavg'] = run(lambda: A.coherence_bavg(X, lb, ub, m()))
    R['cybavg'] = run(lambda: A.coherency_bavg(X, lb, ub, m()))
    if X.shape[0] >= 3:
        R['partial'] = run(lambda: A.coherence_partial(X[:-1], X[-1], m()))

    def an():
        mm = m()
        T = ts.TimeSeries(X, sampling_rate=sc['Fs'])
        C = CoherenceAnalyzer(T, method=mm)
        out = {}
        for name in ('coherency', 'coherence', 'phase', 'delay', 'frequencies', 'spectrum') + (('coherence_partial',) if X.shape[0] >= 3 else ()):
            out[name] = run(lambda: np.array(getattr(C, name)))
        return out
    R['an'] = run(an)
    if sc['kind'] == 'welch':
        R['retarget'] = run(lambda: retarget_data(sc, X))
    if sc['kind'] == 'welch' and X.shape[1] <= 512:       # the model recomputes every cached slice with the naive DFT
        R['cache'] = run(lambda: cache_case_data(sc, X, R))
    return R


def mt_reads(sc, X):
    """one MTCoherenceAnalyzer read in a seeded order of .coherence (c) / .confidence_interval (i); what every read handed
    out at that moment and what the SAME objects hold at the end; plus the data the model needs (coherence of a fresh
    analyzer, jackknife variance, t quantiles, dof)"""
    import random
    from nitime import utils as tsu
    from nitime.lazy import scipy_stats_distributions as dist
    order = random.Random('reads/%d' % sc.get('hseed', 0)).choice(['ic', 'ci', 'cic', 'icc', 'cici', 'iic', 'cci'])
    a = mt_make(sc, X)
    kept, now = [], []
    for ch in order:
        v = a.coherence if ch == 'c' else a.confidence_interval
        kept.append(v)
        now.append(np.array(v, dtype=float).ravel().copy())
    end = [np.array(v, dtype=float).ravel().copy() for v in kept]
    f = mt_make(sc, X)
    nch = X.shape[0]
    c0 = np.array(f.coherence, dtype=float)
    var = np.zeros_like(c0)
    for i in range(nch):
        for j in range(i):
            var[i, j] = tsu.jackknifed_coh_variance(f.spectra[i], f.spectra[j], f.eigs, adaptive=sc['adaptive'])
            var[j, i] = var[i, j]
    df = f.df
    return {'order': order, 'now': now, 'end': end, 'c0': c0.ravel(), 'var': var.ravel(), 'dof': float(2 * df - 2),
            'tlo': float(dist.t.ppf(f.alpha / 2, df - 1)), 'thi': float(dist.t.ppf(1 - f.alpha / 2, df - 1))}


def version_data(X, v):
    """the samples of data version v (0 = the scenario's own data): channel 0 replaced by seeded noise of the same scale"""
    if v == 0:
        return np.array(X, dtype=float)
    Y = np.array(X, dtype=float, copy=True)
    Y[0] = np.random.RandomState(v).randn(Y.shape[1]) * (np.std(Y[0]) or 1.0)
    return Y


def retarget_data(sc, X):
    """a seeded program of reads / in-place data changes / set_input (with other objects and with the object already held)
    on ONE CoherenceAnalyzer; every read is classified by the data version whose function-level coherency it equals"""
    import random
    import nitime.timeseries as ts
    from nitime.analysis import CoherenceAnalyzer
    A = tsa()
    r = random.Random('retarget/%d' % sc.get('hseed', 0))
    progs = [['r', 'm:0:1', 's:0', 'r'], ['r', 's:1', 'r', 'm:1:2', 'r', 's:1', 'r'], ['m:0:3', 'r', 'm:0:4', 'r', 's:0', 'r', 's:0', 'r'],
             ['r', 's:1', 'm:0:5', 's:0', 'r', 'm:1:6', 's:1', 'r', 'r']]
    prog = r.choice(progs)
    objs = {0: ts.TimeSeries(version_data(X, 0), sampling_rate=sc['Fs']), 1: ts.TimeSeries(version_data(X, 1000), sampling_rate=sc['Fs'])}
    versions = {0, 1000} | {int(e.split(':')[2]) for e in prog if e.startswith('m:')}
    ref = {v: A.coherency(version_data(X, v), explicit_method(sc))[1] for v in versions}
    C = CoherenceAnalyzer(objs[0], method=explicit_method(sc))
    getter = 'coherency'          # (with a single window the coherence is 1 for every data version: not a classifier)
    out = []
    for e in prog:
        t = e.split(':')
        if t[0] == 'm':
            objs[int(t[1])].data[...] = version_data(X, int(t[2]))
        elif t[0] == 's':
            C.set_input(objs[int(t[1])])
        else:
            val = np.array(getattr(C, getter))
            hit = [v for v in sorted(versions) if same(val, ref[v] if getter == 'coherency' else np.abs(ref[v]) ** 2, 1e-9)]
            out.append(str(hit[0]) if len(hit) == 1 else '?')
    return {'prog': prog, 'out': out}


def cache_case_data(sc, X, R):
    """SparseCoherenceAnalyzer.coherency for a seeded pair list / band / memory setting, for the model's `cache` op"""
    import random
    import nitime.timeseries as ts
    from nitime.analysis import SparseCoherenceAnalyzer
    if isinstance(R.get('spectra'), str):
        return 'err no-spectra'
    f_full = np.asarray(R['spectra'][0])
    r = random.Random('cachecase/%d' % sc.get('hseed', 0))
    nch = X.shape[0]
    allp = [(i, j) for i in range(nch) for j in range(nch)]
    ij = r.sample(allp, min(len(allp), r.choice([2, 3, 4])))
    if r.random() < 0.5:
        ij.append(ij[0][::-1])
    lb, ub = R['band'] if r.random() < 0.5 else (0, None)
    psm, sbf = r.random() < 0.5, r.random() < 0.7
    A = SparseCoherenceAnalyzer(ts.TimeSeries(X, sampling_rate=sc['Fs']), ij=ij, method=method_of(sc), lb=lb, ub=ub,
                                prefer_speed_over_memory=psm, scale_by_freq=sbf)
    C = np.array(A.coherency)
    fb = np.array(A.frequencies)
    nb = C.shape[-1]
    li = int(np.argmin(np.abs(f_full - fb[0]))) if nb else 0
    return {'ij': ij, 'psm': psm, 'sbf': sbf, 'li': li, 'nb': nb, 'vals': np.concatenate([C[i, j] for (i, j) in ij]) if nb else np.zeros(0, complex)}


def mt_make(sc, X=None):
    """MTCoherenceAnalyzer of a scenario, with its options (bandwidth chosen so that NW = sc['nw'], alpha)"""
    import nitime.timeseries as ts
    from nitime.analysis import MTCoherenceAnalyzer
    X = np.array(sc['data'], dtype=float) if X is None else X
    kw = {'adaptive': sc['adaptive']}
    if sc.get('nw') is not None:
        kw['bandwidth'] = sc['nw'] * (2 * sc['Fs']) / X.shape[-1]
    if sc.get('alpha') is not None:
        kw['alpha'] = sc['alpha']
    return MTCoherenceAnalyzer(ts.TimeSeries(X, sampling_rate=sc['Fs']), **kw)


# ------------------------------------------------------------------ cases
def ok_c(a):
    return 'ok ' + clist(np.asarray(a).reshape(-1))


def ok_r(a):
    a = np.asarray(a)
    return 'ok ' + flist(np.real(a).reshape(-1))


def cond_ok(fxy):
    """relative floor of every auto-spectrum over its own bins (degenerate spectra are skipped and counted);
    channels may differ in scale by any factor"""
    n = fxy.shape[0]
    for i in range(n):
        d = np.real(fxy[i, i])
        if not (np.all(np.isfinite(d)) and d.min() > 0 and d.min() > 1e-7 * d.max()):
            return False
    return True


def phase_weights(fxy, idx_fn, shape):
    """1 where the cross-spectrum entry behind a phase is well above the rounding floor: |coherency| > 1e-6"""
    w = np.zeros(shape)
    for pos in np.ndindex(*shape):
        i, j, k = idx_fn(pos)
        a, b = (i, j) if i <= j else (j, i)
        den = math.sqrt(abs(fxy[a, a, k].real * fxy[b, b, k].real))
        w[pos] = 1.0 if den > 0 and abs(fxy[a, b, k]) > 1e-6 * den else 0.0
    return w.reshape(-1).tolist()


def nseg_of(n, NFFT, nov):
    L = max(n, NFFT)
    return (L - NFFT) // (NFFT - nov) + 1


def cases_of(sc, R, si):
    out = []
    X = np.array(sc['data'], dtype=float)
    nch, n = X.shape
    if sc['kind'] == 'mta':
        r = R['mta']
        if isinstance(r, str):
            return out
        sp, w = r['spectra'], r['weights']
        toks = []
        for i in range(nch):
            toks += [clist(sp[i, t]) for t in range(sp.shape[1])]
            toks += [flist(np.real(w[i, t]).reshape(-1)) for t in range(sp.shape[1])]
        line = 'C08 mt %d %d %d %s' % (n, nch, sp.shape[1], ' '.join(toks))
        out.append(Case(line, ok_r(r['coherence']), 'mt-analyzer/coherence', cmp=cmp_vec, meta={'sc': si, 'obs': 'mta'}))
        q = R.get('reads')
        if isinstance(q, dict):
            line = 'C08 reads %s %s %s %s %s %s' % (f2x(q['dof']), f2x(q['tlo']), f2x(q['thi']), flist(q['c0']), flist(q['var']), q['order'])
            out.append(Case(line, 'ok ' + ' '.join(flist(v) for v in q['now'] + q['end']), 'mt-analyzer/read-history', cmp=cmp_vec,
                            meta={'sc': si, 'obs': 'mta'}))
        return out
    if isinstance(R['spectra'], str):
        if sc['kind'] == 'welch':
            nov = 'dfunc' if sc['nov'] is None else str(sc['nov'])
            line = 'C08 welch coherency %d %s %s %s %s none %s' % (sc['NFFT'], nov, f2x(sc['Fs']), win_tok(sc), f2x(0.0), ' '.join(flist(x) for x in X))
            out.append(Case(line, R['spectra'], 'welch/func/error', meta={'sc': si, 'obs': 'err'}))
        return out
    f, fxy = R['spectra']
    fxy = np.asarray(fxy)
    if fxy.ndim != 3 or not cond_ok(fxy):
        return None        # skipped: degenerate
    lb, ub = R['band']
    ubt = 'none' if ub is None else f2x(ub)
    nf = len(f)
    twopif = (2 * np.pi * np.asarray(f)).tolist()

    def add(what, impl, clause, nov_kind, cmp=cmp_vec, obs=None):
        if sc['kind'] == 'welch':
            nov = (('dfunc' if nov_kind == 'f' else 'dan') if sc['nov'] is None else str(sc['nov']))
            line = 'C08 welch %s %d %s %s %s %s %s %s' % (what, sc['NFFT'], nov, f2x(sc['Fs']), win_tok(sc), f2x(lb), ubt,
                                                        ' '.join(flist(x) for x in X))
        else:
            rows = [clist(fxy[i, j]) for i in range(nch) for j in range(i, nch)]
            line = 'C08 spec %s %d %s %s %s %s' % (what, nch, flist(f), f2x(lb), ubt, ' '.join(rows))
        out.append(Case(line, impl, clause, cmp=cmp, meta={'sc': si, 'obs': obs or what}))

    pre = sc['kind'] if sc['kind'] == 'welch' else sc['method']
    if sc['kind'] == 'csd' and sc['method'].startswith('multi_taper') and n <= 256:
        # (the joint run costs ~N^2.7 in the spectral model's naive transform: 2.6 s at N = 128, 150 s at 512, > 10 min at 1024 —
        #  longer records are compared from the exposed spectra only; the estimator itself is C04 / C06)
        # joint run with the spectral model (C04/C06): estimator from the data (tapers, weights as data) + coherence layer
        import c04
        adaptive = sc['method'].endswith('adaptive')
        mm = {'op': 'mtcsd', 'Fs': sc['Fs'], 'sides': 'default', 'adaptive': adaptive, 'NFFT': None, 'low_bias': True, 'NW': None, 'BW': None}
        j = run(lambda: (c04.mt_tapers(mm, n), c04.adaptive_w(mm, X) if adaptive else None))
        if not isinstance(j, str):
            (dpss, eig), wa = j
            wv = wa.reshape(-1) if adaptive else np.sqrt(eig)
            for what, conv in (('coherency', ok_c), ('coherence', ok_r)):
                r = R[what]
                if not isinstance(r, str):
                    line = 'C08 mtcsd %s %s %d 1 %d %d %s %s %s %s' % (what, f2x(sc['Fs']), n, nch, len(eig), flist(dpss.reshape(-1)),
                                                                      'a' if adaptive else 'f', flist(wv), clist(X.reshape(-1)))
                    out.append(Case(line, conv(r[1]), '%s/joint/%s' % (pre, what), cmp=cmp_vec, meta={'sc': si, 'obs': what}))
    q = R.get('retarget')
    if isinstance(q, dict):
        out.append(Case('C08 retarget 0 ' + ' '.join(q['prog']), 'ok ' + ','.join(q['out']), 'welch/analyzer/set-input-program', meta={'sc': si, 'obs': 'an'}))
    q = R.get('cache')
    if sc['kind'] == 'welch' and isinstance(q, dict) and q['nb'] > 0:
        nov = 'dfunc' if sc['nov'] is None else str(sc['nov'])
        line = 'C08 cache %d %s %s %s %d %d %d %d %s %s' % (sc['NFFT'], nov, f2x(sc['Fs']), win_tok(sc), int(q['sbf']), int(q['psm']), q['li'], q['nb'],
                                                         ','.join('%d:%d' % p_ for p_ in q['ij']), ' '.join(flist(x) for x in X))
        out.append(Case(line, ok_c(q['vals']), 'welch/cache/coherency', cmp=cmp_vec, meta={'sc': si, 'obs': 'coherency'}))
    full = lambda pos: pos
    pw = phase_weights(fxy, full, (nch, nch, nf))
    if sc['kind'] == 'welch':
        add('freqs', 'ok ' + flist(f) + ' ' + flist(f), pre + '/func/freqs', 'f')
    for what, conv in (('coherency', ok_c), ('coherence', ok_r)):
        r = R[what]
        add(what, r if isinstance(r, str) else conv(r[1]), '%s/func/%s' % (pre, what), 'f')
    r = R['phase']
    add('phase', r if isinstance(r, str) else ok_r(r[1]), pre + '/func/phase', 'f', cmp=mk_cmp_phase(pw))
    r = R['delay']
    if not isinstance(r, str):
        fd, p = r
        li = int(np.searchsorted(f, lb, 'left'))
        li = 1 if li == 0 else li
        ui = len(f) if ub is None else int(np.searchsorted(f, ub, 'right'))
        if p.shape[-1] == max(0, ui - li):
            w = phase_weights(fxy, lambda pos: (pos[0], pos[1], li + pos[2]), p.shape)
            g = [twopif[li + k] for _ in range(nch * nch) for k in range(p.shape[-1])]
            add('delay', 'ok %d %d %s' % (li, ui, flist(p.reshape(-1))), pre + '/func/delay', 'f', cmp=mk_cmp_delay(g, w))
    # the band-averaged coherency averages raw angles: a bin whose cross-spectrum sits on the negative real axis
    # (DC, Nyquist) flips between +pi and -pi with rounding; then only the magnitude is compared
    bl = 1 if lb == 0 else int(np.searchsorted(f, lb, 'left'))
    bu = len(f) if ub is None else int(np.searchsorted(f, ub, 'right'))
    band = np.array([fxy[i, j, bl:bu] / np.sqrt(np.abs(fxy[i, i, bl:bu].real * fxy[j, j, bl:bu].real))
                     for i in range(nch) for j in range(i + 1, nch)])
    wrap_safe = band.size > 0 and bool(np.all(np.abs(band) > 1e-6) and np.all(np.pi - np.abs(np.angle(band)) > 1e-6))
    for what, conv in (('cohbavg', ok_r), ('cybavg', ok_c)):
        r = R[what]
        if isinstance(r, str) or np.all(np.isfinite(np.abs(r))):
            add(what, r if isinstance(r, str) else conv(r), '%s/func/%s' % (pre, what), 'f',
                cmp=cmp_vec if (what == 'cohbavg' or wrap_safe) else cmp_abs_c)
    if 'partial' in R:
        r = R['partial']
        nov = None if sc['kind'] != 'welch' else (sc['NFFT'] // 2 if sc['nov'] is None else sc['nov'])
        if (nov is None or nseg_of(n, sc['NFFT'], nov) >= 3) and partial_cond(fxy):
            add('partial', r if isinstance(r, str) else ok_r(r[1]), pre + '/func/partial', 'f')
    a = R.get('an')
    if isinstance(a, dict):
        # the analyzer's default overlap is the module constant 32 whatever NFFT is
        fxa = fxy
        if sc['kind'] == 'welch' and sc['nov'] is None and sc['NFFT'] // 2 != 32:
            fxa = None      # different segmentation from the function-level spectra: conditioning unknown -> weights all 1
        for what, name, conv in (('coherency', 'coherency', ok_c), ('coherence', 'coherence', ok_r)):
            r = a[name]
            add(what, r if isinstance(r, str) else conv(r), '%s/analyzer/%s' % (pre, what), 'a')
        if fxa is not None:
            r = a['phase']
            add('aphase', r if isinstance(r, str) else ok_r(r), pre + '/analyzer/phase', 'a', cmp=mk_cmp_phase(pw))
            r = a['delay']
            if not isinstance(r, str):
                g = [twopif[k] for _ in range(nch * nch) for k in range(nf)]
                add('adelay', ok_r(r), pre + '/analyzer/delay', 'a', cmp=mk_cmp_delay(g, pw))
            if 'coherence_partial' in a:
                r = a['coherence_partial']
                nov = sc.get('nov')
                ns = 3 if sc['kind'] != 'welch' else nseg_of(n, sc['NFFT'], sc['NFFT'] // 2 if nov is None else nov)
                if ns >= 3 and partial_cond(fxy, allk=True):
                    add('apartial', r if isinstance(r, str) else ok_r(r), pre + '/analyzer/partial', 'a')
        # the analyzer's partial coherence from the array the analyzer ITSELF exposes, every row of it (half-filled for welch,
        # full for the multitaper / periodogram estimators): model = analyzerPartial csdOf (Model/C08Layout.lean)
        Sa, r = a.get('spectrum'), a.get('coherence_partial')
        if own_spectrum_ok(sc, Sa, n) and r is not None:
            line = 'C08 specfull apartial %d %d %s' % (nch, Sa.shape[-1], ' '.join(clist(Sa[i, j]) for i in range(nch) for j in range(nch)))
            out.append(Case(line, r if isinstance(r, str) else ok_r(r), pre + '/analyzer/partial-from-own-spectrum', cmp=cmp_vec, meta={'sc': si, 'obs': 'apartial'}))
    return out


def own_spectrum_ok(sc, Sa, n):
    """the spectral matrix an analyzer exposes is well enough conditioned for the partial-coherence clause (>= 3 channels,
    >= 3 windows for welch with the ANALYZER's overlap default 32, auto-spectra above the relative floor, |R|^2 <= 1 - 1e-6)"""
    if not isinstance(Sa, np.ndarray) or Sa.ndim != 3 or Sa.shape[0] < 3 or Sa.shape[0] != Sa.shape[1]:
        return False
    if sc['kind'] == 'welch' and nseg_of(n, sc['NFFT'], 32 if sc['nov'] is None else sc['nov']) < 3:
        return False
    return cond_ok(Sa) and partial_cond(Sa, allk=True)


def win_tok(sc):
    return 'hann' if sc['winvals'] is None else flist(sc['winvals'])


def herm(fxy):
    n = fxy.shape[0]
    S = np.array(fxy, dtype=complex)
    for i in range(n):
        for j in range(i):
            S[i, j] = np.conj(fxy[j, i])
    return S


def partial_cond(fxy, allk=False):
    """the partial-coherence denominators (1-|R_xr|^2) stay away from 0"""
    S = herm(fxy)
    n = S.shape[0]
    rs = range(n) if allk else [n - 1]
    for r in rs:
        for i in range(n):
            if i == r:
                continue
            c = np.abs(S[i, r]) ** 2 / (S[i, i].real * S[r, r].real)
            if not np.all(np.isfinite(c)) or np.max(c) > 1 - 1e-6:
                return False
    return True


def partial_margin(fxy):
    """1 - the largest squared coherence of any pair of channels: the smallest denominator factor of the partial-coherence formula"""
    S = herm(fxy)
    n = S.shape[0]
    with np.errstate(all='ignore'):
        c = [np.max(np.abs(S[i, j]) ** 2 / (S[i, i].real * S[j, j].real)) for i in range(n) for j in range(n) if i != j]
    return 1.0 - max(c) if c and np.all(np.isfinite(c)) else 0.0


_SC = {}


def cases(rng, tier, seed):
    scs = make_scenarios(rng, tier, seed)
    out = []
    _SC.clear()
    _SC.update({'list': scs, 'res': [], 'skipped': 0, 'cases': []})
    for si, sc in enumerate(scs):
        R = impl_results(sc)
        _SC['res'].append(R)
        cs = cases_of(sc, R, si)
        if cs is None:
            _SC['skipped'] += 1
            cs = []
        out += cs
    _SC['cases'] = out
    return out


# ------------------------------------------------------------------ oracle
def inv_partial(S3):
    """|G_xy|^2 / (G_xx G_yy) per bin for the 3x3xF Hermitian spectral matrix (x, y, r) via numpy.linalg.inv"""
    F = S3.shape[-1]
    out = np.zeros(F)
    for k in range(F):
        G = np.linalg.inv(S3[:, :, k])
        out[k] = abs(G[0, 1]) ** 2 / (G[0, 0].real * G[1, 1].real)
    return out


def _pc(fxy, fxx, fyy, fxr, fyr, frr):
    """signature of the defect repaired in 1cdba75, in closed form: |R_xy - R_xr R_yr|^2 / ((1-|R_xr|^2)(1-|R_yr|^2)) (R_yr where R_ry belongs)"""
    with np.errstate(all='ignore'):
        Rxr = fxr / np.sqrt(fxx * frr)
        Ryr = fyr / np.sqrt(fyy * frr)
        Rxy = fxy / np.sqrt(fxx * fyy)
        return np.abs(Rxy - Rxr * Ryr) ** 2 / ((1 - np.abs(Rxr) ** 2) * (1 - np.abs(Ryr) ** 2))


def same_orientation(S, chans, r, semi):
    chans = list(chans)
    out = np.zeros((len(chans), len(chans), S.shape[-1]))
    for a, i in enumerate(chans):
        for b, j in enumerate(chans):
            ii, jj = (i, j) if i <= j else (j, i)
            out[a, b] = np.real(_pc(S[ii, jj], S[ii, ii], S[jj, jj], S[ii, r], S[jj, r], S[r, r]))
    return out


def same_orientation_analyzer(fxy):
    """signature of the defect repaired in e12f747: coherence_partial computed from the semi-filled spectrum (zeros below the diagonal)"""
    n = fxy.shape[0]
    out = np.zeros((n, n, n, fxy.shape[-1]))
    for i in range(n):
        for j in range(n):
            for k in range(n):
                if k != i and k != j:
                    out[i, j, k] = np.real(_pc(fxy[i, j], fxy[i, i], fxy[j, j], fxy[i, k], fxy[j, k], fxy[k, k]))
    for i in range(n):
        for j in range(i):
            out[i, j] = out[j, i]
    return out


def judge(sc, R, gain_rng=None):
    """property-level judgement of the implementation on one scenario: list of (key, what, obs)"""
    fails = []
    X = np.array(sc['data'], dtype=float)
    nch, n = X.shape
    tol = BOUND_TOL

    def bad(key, what, obs):
        fails.append((key, what, obs))

    def bounds(c, name, obs, lo=0.0, hi=1.0):
        c = np.real(np.asarray(c))
        if not np.all(np.isfinite(c)):
            return
        if c.min() < lo - tol:
            bad(name + '/below-0', '%s has value %.6g < 0' % (name, c.min()), obs)
        if c.max() > hi + tol:
            bad(name + '/above-1', '%s reaches %.6g > 1' % (name, c.max()), obs)

    if sc['kind'] == 'mta':
        r = R['mta']
        if isinstance(r, str):
            bad('mt-analyzer/raises', 'MTCoherenceAnalyzer raised ' + r, 'mta')
            return fails
        c = r['coherence']
        bounds(c, 'mt-analyzer/coherence', 'mta')
        if not np.allclose(c, np.transpose(c, (1, 0, 2)), rtol=0, atol=1e-9):
            bad('mt-analyzer/coherence/not-symmetric', 'MT coherence matrix is not symmetric', 'mta')
        d = np.array([c[i, i] for i in range(nch)])
        pow2_gain_checks(sc, R, 'mt-analyzer', bad)
        mt_reuse_checks(sc, bad)
        mt_getter_history(sc, bad)
        inplace_reuse_checks(sc, bad)
        if np.abs(d - 1).max() > 1e-9:
            if np.all(d == 0):      # the recorded defect: the diagonal is never filled
                bad('mt-analyzer/self-coherence/zero-diagonal', 'MTCoherenceAnalyzer.coherence[i,i] = 0, not 1', 'mta')
            else:
                bad('mt-analyzer/self-coherence/not-1', 'MTCoherenceAnalyzer.coherence[i,i] = %.3g, not 1' % d.flat[np.abs(d - 1).argmax()], 'mta')
        return fails
    if isinstance(R['spectra'], str):
        return fails
    f, fxy = R['spectra']
    fxy = np.asarray(fxy)
    if fxy.ndim != 3 or not cond_ok(fxy):
        return fails
    pre = sc['kind'] if sc['kind'] == 'welch' else sc['method']
    S = herm(fxy)

    def sym_checks(cy, co, where):
        if not isinstance(cy, str) and not isinstance(co, str):
            cy, co = np.asarray(cy), np.asarray(co)
            bounds(co, '%s/%s/coherence' % (pre, where), 'coherence')
            d = np.array([co[i, i] for i in range(nch)])
            if np.abs(np.real(d) - 1).max() > 1e-9:
                bad('%s/%s/self-coherence/not-1' % (pre, where), 'coherence[i,i] differs from 1 by %.3g' % np.abs(np.real(d) - 1).max(), 'coherence')
            if np.abs(cy - np.conj(np.transpose(cy, (1, 0, 2)))).max() > 1e-9:
                bad('%s/%s/coherency/not-hermitian' % (pre, where), 'coherency[j,i] != conj coherency[i,j]', 'coherency')
            if np.abs(np.abs(cy) ** 2 - np.real(co)).max() > 1e-9:
                bad('%s/%s/coherency/normsq-ne-coherence' % (pre, where), '|coherency|^2 differs from coherence by %.3g' % np.abs(np.abs(cy) ** 2 - np.real(co)).max(), 'coherency')
            if np.abs(co - np.transpose(co, (1, 0, 2))).max() > 1e-9:
                bad('%s/%s/coherence/not-symmetric' % (pre, where), 'coherence[j,i] != coherence[i,j]', 'coherence')

    def anti(p, name, obs):
        p = np.asarray(p)
        with np.errstate(all='ignore'):
            q = p + np.transpose(p, (1, 0, 2))
        off = ~np.eye(nch, dtype=bool)
        q = q[off]
        q = q[np.isfinite(q)]
        if q.size and np.abs(q).max() > 1e-9:
            bad(name + '/not-antisymmetric', '%s[j,i] != -%s[i,j] (max %.3g)' % (name, name, np.abs(q).max()), obs)

    cy = R['coherency'] if isinstance(R['coherency'], str) else R['coherency'][1]
    co = R['coherence'] if isinstance(R['coherence'], str) else R['coherence'][1]
    for nm in ('coherency', 'coherence', 'phase', 'delay', 'cohbavg', 'cybavg'):
        if isinstance(R[nm], str):
            bad('%s/func/%s/raises' % (pre, nm), '%s raised %s on valid input' % (nm, R[nm]), nm)
    sym_checks(cy, co, 'func')
    if not isinstance(R['phase'], str):
        anti(R['phase'][1], pre + '/func/phase', 'phase')
    if not isinstance(R['delay'], str):
        anti(R['delay'][1], pre + '/func/delay', 'delay')
    if not isinstance(R['cohbavg'], str):
        cb = np.asarray(R['cohbavg'])
        if np.all(np.isfinite(cb)):
            bounds(cb, pre + '/func/cohbavg', 'cohbavg')
            if np.abs(cb - cb.T).max() > 1e-9:
                bad(pre + '/func/cohbavg/not-symmetric', 'band-averaged coherence not symmetric', 'cohbavg')
            if cb.ndim == 2 and np.abs(np.diag(cb) - 1).max() > 1e-9:     # "value 1 of each channel with itself", band-averaged too
                bad(pre + '/func/cohbavg/self-not-1', 'band-averaged coherence of a channel with itself differs from 1 by %.3g' % np.abs(np.diag(cb) - 1).max(), 'cohbavg')
    if not isinstance(R['cybavg'], str):
        cb = np.asarray(R['cybavg'])
        if np.all(np.isfinite(np.abs(cb))):
            bounds(np.abs(cb), pre + '/func/cybavg', 'cybavg')
            if np.abs(cb - np.conj(cb.T)).max() > 1e-9:
                bad(pre + '/func/cybavg/not-hermitian', 'band-averaged coherency not Hermitian', 'cybavg')
    # partial coherence against the inverse of the 3-channel spectral matrix
    if 'partial' in R and isinstance(R['partial'], str):
        bad(pre + '/func/partial/raises', 'coherence_partial raised %s on valid input' % R['partial'], 'partial')
    if 'partial' in R and not isinstance(R['partial'], str):
        nov = None if sc['kind'] != 'welch' else (sc['NFFT'] // 2 if sc['nov'] is None else sc['nov'])
        if (nov is None or nseg_of(n, sc['NFFT'], nov) >= 3) and partial_cond(fxy):
            pc = np.real(np.asarray(R['partial'][1]))
            r = nch - 1
            worst, above = 0.0, 0.0
            for i in range(nch - 1):
                for j in range(nch - 1):
                    if i == j:
                        continue
                    want = inv_partial(S[np.ix_([i, j, r], [i, j, r])])
                    worst = max(worst, np.abs(pc[i, j] - want).max())
                    above = max(above, pc[i, j].max())
            # signature of the recorded defect: both cross-spectra with r in the orientation f_xr, f_yr
            sig = '' if np.abs(pc - same_orientation(S, range(nch - 1), r, semi=False)).max() < 1e-7 else 'unrecognised-'
            if worst > 1e-7:
                bad(pre + '/func/partial/%sne-inverse' % sig, 'coherence_partial differs from |G_xy|^2/(G_xx G_yy), G = inv(S_3x3), by %.3g' % worst, 'partial')
            if above > 1 + tol:
                bad(pre + '/func/partial/%sabove-1' % sig, 'coherence_partial reaches %.4g > 1' % above, 'partial')
            if pc.min() < -tol:
                bad(pre + '/func/partial/below-0', 'coherence_partial has value %.4g < 0' % pc.min(), 'partial')
            dg = np.array([pc[i, i] for i in range(nch - 1)])
            if np.abs(dg - 1).max() > 1e-7:
                bad(pre + '/func/partial/self-not-1', 'coherence_partial[i,i] differs from 1 by %.3g' % np.abs(dg - 1).max(), 'partial')
    a = R.get('an')
    if isinstance(a, str):
        if not (sc['kind'] == 'welch' and sc['nov'] is None and sc['NFFT'] <= 32):
            bad(pre + '/analyzer/raises', 'CoherenceAnalyzer raised ' + a, 'an')
    elif isinstance(a, dict):
        sym_checks(a['coherency'], a['coherence'], 'analyzer')
        if not isinstance(a['phase'], str):
            anti(a['phase'], pre + '/analyzer/phase', 'aphase')
        if not isinstance(a['delay'], str):
            anti(a['delay'], pre + '/analyzer/delay', 'adelay')
        same_seg = not (sc['kind'] == 'welch' and sc['nov'] is None and sc['NFFT'] // 2 != 32)
        analyzer_vs_function(sc, R, a, pre, same_seg, bad)
        analyzer_partial_checks(sc, a, pre, bad)
        if 'coherence_partial' in a and not isinstance(a['coherence_partial'], str) and same_seg:
            nov = None if sc['kind'] != 'welch' else (sc['NFFT'] // 2 if sc['nov'] is None else sc['nov'])
            if (nov is None or nseg_of(n, sc['NFFT'], nov) >= 3) and partial_cond(fxy, allk=True):
                pc = np.asarray(a['coherence_partial'])
                worst, above = 0.0, 0.0
                for i in range(nch):
                    for j in range(nch):
                        for r in range(nch):
                            if len({i, j, r}) < 3:
                                continue
                            want = inv_partial(S[np.ix_([i, j, r], [i, j, r])])
                            worst = max(worst, np.abs(pc[i, j, r] - want).max())
                            above = max(above, pc[i, j, r].max())
                sig = '' if np.abs(pc - same_orientation_analyzer(fxy)).max() < 1e-7 else 'unrecognised-'
                if worst > 1e-7:
                    bad(pre + '/analyzer/partial/%sne-inverse' % sig, 'CoherenceAnalyzer.coherence_partial differs from the inverse-matrix value by %.3g' % worst, 'apartial')
                if above > 1 + tol:
                    bad(pre + '/analyzer/partial/%sabove-1' % sig, 'CoherenceAnalyzer.coherence_partial reaches %.4g > 1' % above, 'apartial')
    pow2_gain_checks(sc, R, pre, bad)
    # analyzer reuse / repeated calls / in-place overwrite / memory layouts / getter histories / cache path
    reuse_checks(sc, bad)
    getter_history_checks(sc, bad)
    inplace_reuse_checks(sc, bad)
    if sc['kind'] == 'welch':
        cache_path_checks(sc, R, bad)
    mk_ = (lambda: method_of(sc)) if sc['kind'] == 'welch' else (lambda: csd_method_of(sc))
    A_ = tsa()
    lb_, ub_ = R['band']
    calls = [('coherency', lambda X_, m_: A_.coherency(X_, m_)), ('coherence', lambda X_, m_: A_.coherence(X_, m_)),
             ('phase', lambda X_, m_: A_.coherency_phase_spectrum(X_, m_)),
             ('cohbavg', lambda X_, m_: A_.coherence_bavg(X_, lb_, ub_, m_)),
             ('delay', lambda X_, m_: A_.coherency_phase_delay(X_, lb_, ub_, m_))]
    # (repeat / layout / dtype comparisons of the partial coherence at rtol 1e-10 need a well-conditioned formula: with 1 - |R|^2 near
    #  1e-6 a different summation order of the transform shows up as 2e-10 — precision of the formula, not a property failure)
    if nch >= 3 and (sc['kind'] == 'welch' or (sc['method'] != 'periodogram_csd' and partial_margin(fxy) > 1e-3)):
        calls.append(('partial', lambda X_, m_: A_.coherence_partial(X_[:-1], X_[-1], m_)))
    identity_checks(pre, X, calls, mk_, bad)
    dtype_checks(pre, X, calls, mk_, bad, sc.get('hseed', 0))
    # gain metamorphic relation (function level): channel m times a
    if gain_rng is not None and not isinstance(cy, str):
        A = tsa()
        m_ = gain_rng.randrange(nch)
        g = gain_rng.choice([-1.0, -0.37, 2.5, -4.0, 1e-3, -1e3, 1e-7, -1e-9, 1e6, 1e-12, -1e12, 1e9])
        X2 = X.copy()
        X2[m_] *= g
        meth = (lambda: method_of(sc)) if sc['kind'] == 'welch' else (lambda: csd_method_of(sc))
        r2 = run(lambda: (A.coherency(X2, meth())[1], A.coherence(X2, meth())[1]))
        if isinstance(r2, str):
            bad(pre + '/func/gain/raises', 'coherency raised after scaling a channel', 'coherency')
        else:
            cy2, co2 = r2
            sgn = np.ones((nch, nch, 1))
            if g < 0:
                sgn[m_, :, 0] *= -1
                sgn[:, m_, 0] *= -1
            if sc['kind'] == 'csd' and sc['method'] == 'multi_taper_csd_adaptive':
                pass        # adaptive weights depend on the scale only through the data variance: still invariant
            if np.abs(co2 - co).max() > 1e-7:
                bad(pre + '/func/gain/coherence-changed', 'coherence changed by %.3g when channel %d was multiplied by %g' % (np.abs(co2 - co).max(), m_, g), 'coherence')
            if np.abs(cy2 - sgn * cy).max() > 1e-7:
                bad(pre + '/func/gain/coherency-sign', 'coherency did not transform by sign(a) under gain %g' % g, 'coherency')
    return fails


# ------------------------------------------------------------------ analyzer attributes for every spectral method
def analyzer_method(sc):
    """the method dict as the ANALYZER completes it (welch: n_overlap defaults to the module constant 32)"""
    if sc['kind'] == 'welch':
        m = method_of(sc)
        m.setdefault('n_overlap', 32)
        return m
    return csd_method_of(sc)


def analyzer_vs_function(sc, R, a, pre, same_seg, bad):
    """every CoherenceAnalyzer attribute against the function-level API on the same data and method"""
    if not same_seg or isinstance(R.get('spectra'), str):
        return
    f, fxy = R['spectra']
    fxy = np.asarray(fxy)
    nch = fxy.shape[0]
    iu = np.triu_indices(nch)
    pairs = [('frequencies', a.get('frequencies'), np.asarray(f), 'afreqs')]
    Sa = a.get('spectrum')
    if isinstance(Sa, np.ndarray) and Sa.shape == fxy.shape:
        pairs.append(('spectrum', Sa[iu], fxy[iu], 'an'))            # (the half get_spectra documents as filled)
    for nm, key in (('coherency', 'coherency'), ('coherence', 'coherence')):
        if not isinstance(R[key], str):
            pairs.append((nm, a.get(nm), np.asarray(R[key][1]), nm))
    for nm, got, want, obs in pairs:
        if isinstance(got, str):
            bad('%s/analyzer/%s/raises' % (pre, nm), 'CoherenceAnalyzer.%s raised %s (the function-level API does not)' % (nm, got), obs)
        elif got is not None and not same(got, want):
            bad('%s/analyzer/%s/ne-function-level' % (pre, nm), 'CoherenceAnalyzer.%s differs from the function-level API on the same data and method (%s)' % (nm, maxdiff(got, want)), obs)
    # phases on the circle / delays where the cross-spectrum is above the rounding floor
    S = herm(fxy)
    dgl = np.real(S[np.arange(nch), np.arange(nch)])
    with np.errstate(all='ignore'):
        strong = np.abs(S) > 1e-6 * np.sqrt(np.abs(dgl[:, None, :] * dgl[None, :, :]))
    strong &= ~np.eye(nch, dtype=bool)[:, :, None]
    if not isinstance(R['phase'], str) and isinstance(a.get('phase'), np.ndarray) and a['phase'].shape == np.asarray(R['phase'][1]).shape:
        d = np.abs(np.angle(np.exp(1j * (a['phase'] - np.asarray(R['phase'][1])))))
        if strong.any() and d[strong].max() > 1e-6:
            bad(pre + '/analyzer/phase/ne-function-level', 'CoherenceAnalyzer.phase differs from coherency_phase_spectrum by %.3g rad' % d[strong].max(), 'aphase')
    dl = R.get('delay')
    if dl is not None and not isinstance(dl, str) and isinstance(a.get('delay'), np.ndarray):
        fd, p = np.asarray(dl[0]), np.asarray(dl[1])
        f = np.asarray(f)
        if len(fd) and p.shape[-1] == len(fd):
            li = int(np.argmin(np.abs(f - fd[0])))
            if li + len(fd) <= len(f) and np.allclose(f[li:li + len(fd)], fd, rtol=1e-12, atol=0):
                ad = a['delay'][:, :, li:li + len(fd)]
                with np.errstate(all='ignore'):
                    d = np.abs(np.angle(np.exp(1j * (ad - p) * 2 * np.pi * fd)))
                ok = strong[:, :, li:li + len(fd)] & np.isfinite(d)
                if ok.any() and d[ok].max() > 1e-6:
                    bad(pre + '/analyzer/delay/ne-function-level', 'CoherenceAnalyzer.delay differs from coherency_phase_delay (%.3g rad at the bin frequency)' % d[ok].max(), 'adelay')


def analyzer_partial_checks(sc, a, pre, bad):
    """CoherenceAnalyzer.coherence_partial for EVERY spectral method, judged on the spectra the analyzer itself exposes: in [0, 1],
    1 for a channel with itself, symmetric, = |G_ij|^2/(G_ii G_jj) with G = numpy.linalg.inv of the 3-channel matrix, and = the
    function-level coherence_partial on the same data and method"""
    pc, Sa = a.get('coherence_partial'), a.get('spectrum')
    X = np.array(sc['data'], dtype=float)
    nch, n = X.shape
    if pc is None:
        return
    if isinstance(pc, str):
        if not isinstance(Sa, str):
            bad(pre + '/analyzer/partial/raises', 'CoherenceAnalyzer.coherence_partial raised ' + pc, 'apartial')
        return
    if not own_spectrum_ok(sc, Sa, n):
        return
    pc = np.real(np.asarray(pc))
    S = herm(Sa)
    k = '%s/analyzer/partial-own-spectrum' % pre
    if not np.all(np.isfinite(pc)):
        bad(k + '/not-finite', 'CoherenceAnalyzer.coherence_partial holds non-finite values on well-conditioned spectra', 'apartial')
        return
    worst, lo, hi, dg, asym = 0.0, 0.0, 0.0, 0.0, 0.0
    for i in range(nch):
        for j in range(nch):
            for r in range(nch):
                if r == i or r == j:
                    continue
                if i == j:
                    dg = max(dg, np.abs(pc[i, i, r] - 1).max())
                    continue
                want = inv_partial(S[np.ix_([i, j, r], [i, j, r])])
                worst = max(worst, np.abs(pc[i, j, r] - want).max())
                lo, hi = min(lo, pc[i, j, r].min()), max(hi, pc[i, j, r].max())
                asym = max(asym, np.abs(pc[i, j, r] - pc[j, i, r]).max())
    if worst > 1e-7:
        bad(k + '/ne-inverse', 'CoherenceAnalyzer.coherence_partial differs from |G_ij|^2/(G_ii G_jj), G = inv of the 3-channel matrix of the '
            'analyzer\'s own .spectrum, by %.3g' % worst, 'apartial')
    if hi > 1 + BOUND_TOL:
        bad(k + '/above-1', 'CoherenceAnalyzer.coherence_partial reaches %.4g > 1' % hi, 'apartial')
    if lo < -BOUND_TOL:
        bad(k + '/below-0', 'CoherenceAnalyzer.coherence_partial has value %.4g < 0' % lo, 'apartial')
    if dg > 1e-7:
        bad(k + '/self-not-1', 'CoherenceAnalyzer.coherence_partial[i,i,r] differs from 1 by %.3g' % dg, 'apartial')
    if asym > 1e-9:
        bad(k + '/not-symmetric', 'CoherenceAnalyzer.coherence_partial[j,i,r] != [i,j,r] (max %.3g)' % asym, 'apartial')
    A = tsa()
    for r in sorted({nch - 1, 0}):
        others = [c for c in range(nch) if c != r]
        fl = run(lambda: A.coherence_partial(X[others], X[r], analyzer_method(sc))[1])
        if isinstance(fl, str):
            bad('%s/func/partial/raises' % pre, 'coherence_partial raised %s where the analyzer answers' % fl, 'apartial')
            continue
        got = pc[np.ix_(others, others, [r])][:, :, 0]
        d = np.abs(got - np.real(fl)).max()
        if not np.isfinite(d) or d > 1e-7:
            bad(k + '/ne-function-level', 'CoherenceAnalyzer.coherence_partial[:, :, r] differs from coherence_partial(others, channel r) '
                'on the same data and method by %.3g (r = %d)' % (d, r), 'apartial')


def pow2_gains(sc, nch):
    """lopsided exact gains: every channel times +-2^e, e in {-30, 0, 30}, not all equal"""
    import random
    r = random.Random('pow2/%d' % sc.get('hseed', 0))
    es = [r.choice([-30, 0, 30]) for _ in range(nch)]
    if len(set(es)) == 1:
        es[r.randrange(nch)] = -30 if es[0] != -30 else 30
    return np.array([(-1.0 if r.random() < 0.4 else 1.0) * 2.0 ** e for e in es])


def pow2_gain_checks(sc, R, pre, bad):
    """scale-free clauses under exact power-of-two gains that differ by 2^30 / 2^60 between channels: analyzer attributes and
    function-level routines must be unchanged (coherency: times the signs), for every spectral method and analyzer"""
    import nitime.timeseries as ts
    from nitime.analysis import CoherenceAnalyzer, SparseCoherenceAnalyzer, SeedCoherenceAnalyzer
    A = tsa()
    X = np.array(sc['data'], dtype=float)
    nch, n = X.shape
    g = pow2_gains(sc, nch)
    X2 = X * g[:, None]
    sg = np.sign(g)
    sgn = (sg[:, None] * sg[None, :])[:, :, None]
    tag = 'gains ' + ','.join('%s2^%d' % ('-' if v < 0 else '', int(round(math.log2(abs(v))))) for v in g)

    def cmp(key, obs, v1, v2, mult=None, tol=1e-7):
        if isinstance(v1, str) or isinstance(v2, str):
            if isinstance(v1, str) != isinstance(v2, str):
                bad(key + '/raises', '%s: %s vs %s' % (tag, v1 if isinstance(v1, str) else 'ok', v2 if isinstance(v2, str) else 'ok'), obs)
            return
        v1, v2 = np.asarray(v1), np.asarray(v2)
        if mult is not None and v1.shape == v2.shape:
            v1 = v1 * mult
        m = np.isfinite(v1) & np.isfinite(v2) if v1.shape == v2.shape else None
        if m is None or not np.array_equal(np.isfinite(v1), np.isfinite(v2)) or (m.any() and np.abs(v1[m] - v2[m]).max() > tol):
            bad(key + '/changed', 'changed (%s) under %s' % (maxdiff(v1, v2) if m is not None else 'shape', tag), obs)

    if sc['kind'] == 'mta':
        c1, c2 = run(lambda: np.array(mt_make(sc, X).coherence)), run(lambda: np.array(mt_make(sc, X2).coherence))
        cmp('mt-analyzer/gain-pow2/coherence', 'mta', c1, c2)
        return
    m = lambda: analyzer_method(sc)
    names = ('coherence', 'coherency') + (('coherence_partial',) if nch >= 3 else ())

    def an(Y):
        C = CoherenceAnalyzer(ts.TimeSeries(Y, sampling_rate=sc['Fs']), method=m())
        return {nm: run(lambda: np.array(getattr(C, nm))) for nm in names + ('spectrum',)}
    a1, a2 = run(lambda: an(X)), run(lambda: an(X2))
    cond = isinstance(a1, dict) and nch >= 3 and own_spectrum_ok(sc, a1['spectrum'], n)
    if isinstance(a1, dict) and isinstance(a2, dict):
        cmp(pre + '/analyzer/gain-pow2/coherence', 'coherence', a1['coherence'], a2['coherence'])
        cmp(pre + '/analyzer/gain-pow2/coherency', 'coherency', a1['coherency'], a2['coherency'], sgn)
        if cond:
            cmp(pre + '/analyzer/gain-pow2/partial', 'apartial', a1['coherence_partial'], a2['coherence_partial'])
    f1 = run(lambda: (A.coherence(X, m())[1], A.coherency(X, m())[1]))
    f2 = run(lambda: (A.coherence(X2, m())[1], A.coherency(X2, m())[1]))
    if not isinstance(f1, str) and not isinstance(f2, str):
        cmp(pre + '/func/gain-pow2/coherence', 'coherence', f1[0], f2[0])
        cmp(pre + '/func/gain-pow2/coherency', 'coherency', f1[1], f2[1], sgn)
    if cond:
        p1 = run(lambda: A.coherence_partial(X[:-1], X[-1], m())[1])
        p2 = run(lambda: A.coherence_partial(X2[:-1], X2[-1], m())[1])
        cmp(pre + '/func/gain-pow2/partial', 'partial', p1, p2)
    if sc['kind'] == 'welch' and sc['NFFT'] <= n and isinstance(a1, dict):
        ij = [(i, j) for i in range(nch) for j in range(nch)]
        s1 = run(lambda: np.array(SparseCoherenceAnalyzer(ts.TimeSeries(X, sampling_rate=sc['Fs']), ij=ij, method=m()).coherence))
        s2 = run(lambda: np.array(SparseCoherenceAnalyzer(ts.TimeSeries(X2, sampling_rate=sc['Fs']), ij=ij, method=m()).coherence))
        cmp(pre + '/sparse-analyzer/gain-pow2/coherence', 'an', s1, s2)
        k = max(1, nch // 2)

        def seed(Y):
            return np.array(SeedCoherenceAnalyzer(ts.TimeSeries(Y[:k], sampling_rate=sc['Fs']), ts.TimeSeries(Y[k:], sampling_rate=sc['Fs']), method=m()).coherence)
        cmp(pre + '/seed-analyzer/gain-pow2/coherence', 'an', run(lambda: seed(X)), run(lambda: seed(X2)))


# ------------------------------------------------------------------ analyzer reuse, repeated calls, in-place overwrite, layouts
def partner(X):
    """deterministic metamorphic partner of a data set: channels in reverse order, first one times -2.5"""
    X2 = np.array(X[::-1], dtype=float, copy=True)
    X2[0] *= -2.5
    return X2


def same(a, b, rtol=1e-9):
    """tuples / arrays equal up to rtol of the largest magnitude (non-finite entries in the same places)"""
    if isinstance(a, str) or isinstance(b, str):
        return isinstance(a, str) and isinstance(b, str) and a == b
    if isinstance(a, (tuple, list)):
        return len(a) == len(b) and all(same(x, y, rtol) for x, y in zip(a, b))
    a, b = np.asarray(a), np.asarray(b)
    if a.shape != b.shape:
        return False
    fa, fb = np.isfinite(a), np.isfinite(b)
    if not np.array_equal(fa, fb):
        return False
    if not fa.any():
        return True
    sc_ = max(np.abs(a[fa]).max(), np.abs(b[fa]).max(), 1e-300)
    return bool(np.abs(a[fa] - b[fa]).max() <= rtol * sc_)


def explicit_method(sc):
    """a user method dict carrying explicit Fs / NFFT / n_overlap (welch) or Fs (other estimators)"""
    if sc['kind'] == 'welch':
        m = method_of(sc)
        m.setdefault('n_overlap', sc['NFFT'] // 2)
        return m
    return csd_method_of(sc)


def reuse_checks(sc, bad):
    """ONE CoherenceAnalyzer re-targeted with set_input must give what the function-level API gives on the new
    data: default method (Fs follows the input) and user method dict (explicit Fs), both read orders"""
    A = tsa()
    import nitime.timeseries as ts
    from nitime.analysis import CoherenceAnalyzer
    X = np.array(sc['data'], dtype=float)
    X2 = partner(X)
    Fs = sc['Fs']
    pre = sc['kind'] if sc['kind'] == 'welch' else sc['method']
    variants = [('explicit-method', lambda: explicit_method(sc), Fs)]
    if sc['kind'] == 'welch':
        variants += [('default-method', lambda: None, Fs), ('default-method', lambda: None, 2.0 * Fs)]
    # class L8: set_input with the very TimeSeries object the analyzer already holds, after its data were changed IN PLACE
    for vname, mk in [('explicit-method', lambda: explicit_method(sc))] + ([('default-method', lambda: None)] if sc['kind'] == 'welch' else []):
        m_exp = mk() or {'this_method': 'welch', 'Fs': Fs}
        want = run(lambda: (A.get_spectra(X2, dict(m_exp))[0], A.coherency(X2, dict(m_exp))[1], A.coherence(X2, dict(m_exp))[1]))
        if isinstance(want, str):
            continue

        def go_same():
            T = ts.TimeSeries(X.copy(), sampling_rate=Fs)
            C = CoherenceAnalyzer(T, method=mk())
            names = ('coherency', 'coherence', 'phase', 'delay', 'spectrum', 'frequencies') + (('coherence_partial',) if X.shape[0] >= 3 else ())
            for a in names:
                getattr(C, a)
            T.data[...] = X2                      # same object, new samples
            C.set_input(T)
            return {a: np.array(getattr(C, a)) for a in names}
        got = run(go_same)
        if isinstance(got, str):
            bad('%s/analyzer-reuse/%s/same-object/raises' % (pre, vname), 'CoherenceAnalyzer.set_input with the TimeSeries it already holds raised ' + got, 'an')
        else:
            for a, w in (('frequencies', want[0]), ('coherency', want[1]), ('coherence', want[2])):
                if not same(got[a], w):
                    bad('%s/analyzer-reuse/%s/same-object/stale-%s' % (pre, vname, a),
                        'CoherenceAnalyzer.set_input(T) with the TimeSeries object it already holds, after T.data was changed in place: .%s still describes the old samples' % a, 'an')
            judge_values('%s/analyzer-reuse/%s/same-object' % (pre, vname), got, bad, 'an')
    for vname, mk, Fs2 in variants:
        m_exp = mk()
        if m_exp is None:
            m_exp = {'this_method': 'welch', 'Fs': Fs2}
        want = run(lambda: (A.get_spectra(X2, dict(m_exp))[0], A.coherency(X2, dict(m_exp))[1], A.coherence(X2, dict(m_exp))[1]))
        if isinstance(want, str):
            continue
        for order in ('values-first', 'frequencies-first'):
            def go():
                C = CoherenceAnalyzer(ts.TimeSeries(X, sampling_rate=Fs), method=mk())
                first = ('coherency', 'coherence', 'spectrum', 'frequencies') if order == 'values-first' else ('frequencies', 'spectrum', 'coherence', 'coherency')
                for a in first:
                    getattr(C, a)
                C.set_input(ts.TimeSeries(X2, sampling_rate=Fs2))
                out = {}
                for a in first:
                    out[a] = np.array(getattr(C, a))
                return out
            got = run(go)
            if isinstance(got, str):
                bad('%s/analyzer-reuse/%s/%s/raises' % (pre, vname, order), 'a re-targeted CoherenceAnalyzer raised ' + got, 'an')
                continue
            for a, w in (('frequencies', want[0]), ('coherency', want[1]), ('coherence', want[2])):
                if not same(got[a], w):
                    bad('%s/analyzer-reuse/%s/%s/stale-%s' % (pre, vname, order, a),
                        'CoherenceAnalyzer re-targeted with set_input: .%s differs from the function-level API on the new data' % a, 'an')


def mt_reuse_checks(sc, bad):
    """a re-targeted MTCoherenceAnalyzer (new data of another length) = a fresh one"""
    import nitime.timeseries as ts
    from nitime.analysis import MTCoherenceAnalyzer
    X = np.array(sc['data'], dtype=float)
    X2 = partner(X)[:, :X.shape[1] - 7]

    def go_same():
        T = ts.TimeSeries(X.copy(), sampling_rate=sc['Fs'])
        C = MTCoherenceAnalyzer(T, adaptive=sc['adaptive'])
        for a in ('coherence', 'confidence_interval', 'weights', 'spectra'):
            getattr(C, a)
        T.data[...] = partner(X)
        C.set_input(T)
        return np.array(C.coherence)
    got = run(go_same)
    fresh = run(lambda: np.array(MTCoherenceAnalyzer(ts.TimeSeries(partner(X), sampling_rate=sc['Fs']), adaptive=sc['adaptive']).coherence))
    if not isinstance(fresh, str):
        if isinstance(got, str):
            bad('mt-analyzer/reuse/same-object/raises', 'MTCoherenceAnalyzer.set_input with the TimeSeries it already holds raised ' + got, 'mta')
        elif not same(got, fresh):
            bad('mt-analyzer/reuse/same-object/stale-coherence', 'MTCoherenceAnalyzer.set_input(T) with the object it already holds, after T.data changed in place: .coherence is stale', 'mta')
    for order in ('values-first', 'frequencies-first'):
        names = ('coherence', 'frequencies') if order == 'values-first' else ('frequencies', 'coherence')

        def go():
            C = MTCoherenceAnalyzer(ts.TimeSeries(X, sampling_rate=sc['Fs']), adaptive=sc['adaptive'])
            for a in names + ('weights', 'tapers'):
                getattr(C, a)
            C.set_input(ts.TimeSeries(X2, sampling_rate=2 * sc['Fs']))
            return {a: np.array(getattr(C, a)) for a in names}
        got = run(go)
        fresh = run(lambda: (lambda C: {a: np.array(getattr(C, a)) for a in names})(
            MTCoherenceAnalyzer(ts.TimeSeries(X2, sampling_rate=2 * sc['Fs']), adaptive=sc['adaptive'])))
        if isinstance(fresh, str):
            continue
        if isinstance(got, str):
            bad('mt-analyzer/reuse/%s/raises' % order, 'a re-targeted MTCoherenceAnalyzer raised ' + got, 'mta')
            continue
        for a in names:
            if not same(got[a], fresh[a]):
                bad('mt-analyzer/reuse/%s/stale-%s' % (order, a), 'MTCoherenceAnalyzer re-targeted with set_input: .%s differs from a fresh analyzer on the new data' % a, 'mta')


REUSE_VARIANTS = ('gains', 'flip', 'noise')
REUSE_MODES = ('reset', 'set_input', 'set_input-new')


def reuse_change(X, variant, hseed):
    """the in-place change of the held input: (new samples, per-channel signs or None when the change is not a pure gain)"""
    import random
    r = random.Random('reuse/%s/%d' % (variant, hseed))
    nch, n = X.shape
    if variant == 'gains':          # every channel times its own non-zero constant: both signs, powers of two, lopsided
        g = np.array([r.choice([-2.5, 3.0, 0.4, -7.0, 2.0 ** 10, -2.0 ** -8, 0.5, -4.0, 1e3, -1e-3]) for _ in range(nch)])
        if np.all(g == g[0]):
            g[r.randrange(nch)] = -7.0 if g[0] != -7.0 else 3.0
        return X * g[:, None], np.sign(g)
    if variant == 'flip':           # one channel times -1
        g = np.ones(nch)
        g[r.randrange(nch)] = -1.0
        return X * g[:, None], g
    Y = X.copy()                    # one channel replaced by new noise of the same size
    m = r.randrange(nch)
    Y[m] = np_rng(PID, hseed, 'reuse-noise').randn(n) * (np.std(X[m]) or 1.0) + np.mean(X[m])
    return Y, None


def inplace_reuse(pre, make, getters, X, Fs, hseed, bad, obs, square=True, variants=REUSE_VARIANTS, modes=REUSE_MODES, anti=True):
    """ONE analyzer object: read every result attribute, change the data of the input it holds IN PLACE (per-channel gains /
    sign flip of one channel / one channel replaced by new noise), then the documented invalidation — reset(), set_input(the same
    object), set_input(a new object with equal data) — and read every attribute again.  Judged by C08's own oracle (bounds, diagonal 1,
    symmetry, |coherency|^2 = coherence), by gain invariance where the change was a pure gain, and against a FRESH analyzer of the
    same class / options built on a copy of the current data.  make(Y) -> analyzer holding a TimeSeries whose .data is Y's copy"""
    import nitime.timeseries as ts
    X = np.array(X, dtype=float)
    for variant in variants:
        Y, signs = reuse_change(X, variant, hseed)
        fresh = {}
        for g in getters:
            fresh[g] = run(lambda: snap(getattr(make(Y.copy()), g)))
        if all(isinstance(v, str) for v in fresh.values()):
            continue
        for mode in modes:
            if mode == 'set_input-new' and variant != REUSE_VARIANTS[hseed % 3]:      # (the cheap extra: one variant per scenario)
                continue
            key = 'reuse/%s/%s/%s' % (pre, variant, mode)

            def go():
                C = make(X.copy())
                if not hasattr(C, 'reset' if mode == 'reset' else 'set_input'):
                    return None
                before = {g: run(lambda: snap(getattr(C, g))) for g in getters}
                T = C.input
                T.data[...] = Y                              # same TimeSeries object, same ndarray, new samples
                if mode == 'reset':
                    C.reset()
                elif mode == 'set_input':
                    C.set_input(T)
                else:
                    C.set_input(ts.TimeSeries(np.array(T.data, copy=True), sampling_rate=Fs))
                return before, {g: run(lambda: snap(getattr(C, g))) for g in getters}
            res = run(go)
            if res is None:
                continue
            if isinstance(res, str):
                bad(key + '/raises', '%s: reading, changing the held input in place (%s) and %s raised %s' % (pre, variant, mode, res), obs)
                continue
            before, after = res
            how = '%s after its input was changed in place (%s) and %s' % (pre, variant, 'reset()' if mode == 'reset' else mode + '(...)')
            for g in getters:
                if isinstance(fresh[g], str):
                    continue
                if isinstance(after[g], str):
                    bad('%s/%s/raises' % (key, g), '%s: .%s raised %s (a fresh analyzer on the same data does not)' % (how, g, after[g]), obs)
                elif not same_deep(after[g], fresh[g], 1e-9):
                    bad('%s/%s/differs-from-fresh' % (key, g), '%s: .%s differs from a fresh analyzer on the current data (%s)'
                        % (how, g, maxdiff(after[g], fresh[g]) if isinstance(after[g], np.ndarray) else 'structure'), obs)
            vals = {g: np.asarray(v) for g, v in after.items() if g in (('coherence', 'coherency', 'phase', 'delay') if anti else ('coherence', 'coherency')) and not isinstance(v, (str, dict))}
            judge_values(key, vals, bad, obs, square)
            if signs is not None:
                sgn = (signs[:, None] * signs[None, :])[:, :, None]
                for g, mult in (('coherence', None), ('coherency', sgn)):
                    b, a = before.get(g), after.get(g)
                    if not isinstance(b, np.ndarray) or not isinstance(a, np.ndarray) or b.shape != a.shape:
                        continue
                    b = b * mult if (mult is not None and b.ndim == 3 and b.shape[:2] == mult.shape[:2]) else (b if mult is None else None)
                    if b is None:
                        continue
                    m = np.isfinite(a) & np.isfinite(b)
                    if m.any() and np.abs(a[m] - b[m]).max() > 1e-7:
                        bad('%s/%s/changed-under-gain' % (key, g), '%s: .%s changed by %.3g although every channel was only multiplied by a non-zero constant'
                            % (how, g, np.abs(a[m] - b[m]).max()), obs)


def inplace_reuse_checks(sc, bad):
    """`inplace_reuse` for every coherence-family analyzer a scenario exercises (SeedCoherenceAnalyzer has neither reset() nor set_input)"""
    import nitime.timeseries as ts
    from nitime.analysis import CoherenceAnalyzer, SparseCoherenceAnalyzer
    X = np.array(sc['data'], dtype=float)
    nch, n = X.shape
    Fs = sc['Fs']
    hseed = sc.get('hseed', 0)
    if sc['kind'] == 'mta':
        inplace_reuse('mt-analyzer/%s' % ('adaptive' if sc['adaptive'] else 'fixed'), lambda Y: mt_make(sc, Y), GETTERS['mt-analyzer'], X, Fs, hseed, bad, 'mta')
        return
    pre = sc['kind'] if sc['kind'] == 'welch' else sc['method']
    getters = [g for g in GETTERS['analyzer'] if g != 'coherence_partial' or nch >= 3]
    if not (sc['kind'] == 'welch' and sc['nov'] is None and sc['NFFT'] <= 32 and n < sc['NFFT'] + 32):
        inplace_reuse(pre + '/analyzer/explicit-method', lambda Y: CoherenceAnalyzer(ts.TimeSeries(Y, sampling_rate=Fs), method=explicit_method(sc)),
                      getters, X, Fs, hseed, bad, 'an')
    if sc['kind'] == 'welch':
        inplace_reuse('welch/analyzer/default-method', lambda Y: CoherenceAnalyzer(ts.TimeSeries(Y, sampling_rate=Fs)), getters, X, Fs, hseed, bad, 'an',
                      variants=(REUSE_VARIANTS[hseed % 3],))
        if sc['NFFT'] <= n:
            ij = [(i, j) for i in range(nch) for j in range(nch)]
            inplace_reuse('welch/sparse-analyzer', lambda Y: SparseCoherenceAnalyzer(ts.TimeSeries(Y, sampling_rate=Fs), ij=ij, method=method_of(sc)),
                          GETTERS['sparse-analyzer'], X, Fs, hseed, bad, 'an', anti=False)     # delay = angle/(2 pi f): arg = pi at real negative bins (Nyquist) is excluded from antisymmetry


def identity_checks(pre, X, calls, mk, bad, obs='coherency'):
    """every function-level routine: called twice with the same argument objects (equal results, arguments
    byte-identical); the same ndarray overwritten in place = a call on a fresh copy; Fortran-ordered and strided inputs"""
    X = np.array(X, dtype=float)
    X2 = partner(X)
    for name, call in calls:
        Xa = X.copy()
        m = mk()
        wsnap = None if m.get('window') is None or not hasattr(m.get('window'), 'tobytes') else m['window'].tobytes()
        r1 = run(lambda: call(Xa, m))
        r2 = run(lambda: call(Xa, m))
        if isinstance(r1, str):
            continue
        if not same(r1, r2, 0.0):
            bad('%s/func/%s/repeat-call-differs' % (pre, name), '%s called twice with the same argument objects gives different results' % name, obs)
        if Xa.tobytes() != X.tobytes() or (wsnap is not None and m['window'].tobytes() != wsnap):
            bad('%s/func/%s/argument-mutated' % (pre, name), '%s changed its ndarray argument' % name, obs)
            Xa = X.copy()
        Xa[...] = X2
        r3 = run(lambda: call(Xa, m))
        r4 = run(lambda: call(X2.copy(), mk()))
        if not same(r3, r4, 1e-12):
            bad('%s/func/%s/stale-after-inplace-overwrite' % (pre, name), '%s on an ndarray overwritten in place differs from a call on a fresh copy of the same data' % name, obs)
        r5 = run(lambda: call(np.asfortranarray(X), mk()))
        if not same(r5, r1, 1e-10):
            bad('%s/func/%s/layout-fortran-differs' % (pre, name), '%s on a Fortran-ordered copy differs' % name, obs)
        big = np.zeros((X.shape[0] * 2, X.shape[1] * 2))
        big[::2, ::2] = X
        r6 = run(lambda: call(big[::2, ::2], mk()))
        if not same(r6, r1, 1e-10):
            bad('%s/func/%s/layout-strided-view-differs' % (pre, name), '%s on a strided view differs' % name, obs)



# ------------------------------------------------------------------ getter histories (classes L2 / L6), cache path, dtype families (L1)
def snap(v):
    """deep copy of what a getter handed out (arrays, dicts of arrays, numbers)"""
    if isinstance(v, np.ndarray):
        return np.array(v, copy=True)
    if isinstance(v, dict):
        return {k: snap(x) for k, x in v.items()}
    if isinstance(v, (list, tuple)):
        return [snap(x) for x in v]
    return v


def same_deep(a, b, rtol=1e-9):
    if isinstance(a, str) or isinstance(b, str):
        return isinstance(a, str) and isinstance(b, str) and a == b
    if isinstance(a, dict) or isinstance(b, dict):
        return isinstance(a, dict) and isinstance(b, dict) and set(a) == set(b) and all(same_deep(a[k], b[k], rtol) for k in a)
    if isinstance(a, (list, tuple)) and isinstance(b, (list, tuple)):
        return len(a) == len(b) and all(same_deep(x, y, rtol) for x, y in zip(a, b))
    try:
        a_, b_ = np.asarray(a), np.asarray(b)
        if a_.dtype.kind not in 'fciu' or b_.dtype.kind not in 'fciu':
            return bool(a_.shape == b_.shape and np.array_equal(a_, b_))
        return same(a_, b_, rtol)
    except Exception:
        return False


GETTERS = {
    'analyzer': ['coherency', 'coherence', 'phase', 'delay', 'coherence_partial', 'spectrum', 'frequencies'],
    'mt-analyzer': ['coherence', 'confidence_interval', 'frequencies', 'spectra', 'weights', 'tapers', 'eigs', 'df'],
    'sparse-analyzer': ['coherency', 'coherence', 'spectrum', 'phases', 'relative_phases', 'delay', 'frequencies', 'cache'],
    'seed-analyzer': ['coherence', 'coherency', 'relative_phases', 'delay', 'frequencies', 'target_cache'],
}


def judge_values(pre, vals, bad, obs, square=True, tol=None):
    """C08's own oracle on getter values as they stand (after a read history): bounds, symmetry, |coherency|^2 = coherence"""
    BOUND_TOL = globals()['BOUND_TOL'] if tol is None else tol
    co, cy = vals.get('coherence'), vals.get('coherency')
    if isinstance(co, np.ndarray):
        c = np.real(co)
        fin = np.isfinite(c)
        if not fin.all():
            bad(pre + '/coherence/not-finite', '%s.coherence holds non-finite values' % pre, obs)
            if fin.any() and c[fin].max() > 1 + BOUND_TOL:
                bad(pre + '/coherence/above-1', '%s.coherence reaches %.6g > 1' % (pre, c[fin].max()), obs)
        elif c.size:
            if c.max() > 1 + BOUND_TOL:
                bad(pre + '/coherence/above-1', '%s.coherence reaches %.6g > 1' % (pre, c.max()), obs)
            if c.min() < -BOUND_TOL:
                bad(pre + '/coherence/below-0', '%s.coherence has value %.6g < 0' % (pre, c.min()), obs)
            if square and c.ndim == 3 and c.shape[0] == c.shape[1]:
                if np.abs(c - np.transpose(c, (1, 0, 2))).max() > 1e-9:
                    bad(pre + '/coherence/not-symmetric', '%s.coherence[j,i] != coherence[i,j]' % pre, obs)
                d = np.array([c[i, i] for i in range(c.shape[0])])
                if np.abs(d - 1).max() > 1e-9:
                    bad(pre + '/self-coherence/not-1', '%s.coherence[i,i] differs from 1 by %.3g' % (pre, np.abs(d - 1).max()), obs)
    if isinstance(cy, np.ndarray) and np.all(np.isfinite(np.abs(cy))) and cy.size:
        if np.abs(cy).max() > 1 + BOUND_TOL:
            bad(pre + '/coherency/modulus-above-1', '|%s.coherency| reaches %.6g > 1' % (pre, np.abs(cy).max()), obs)
        if square and cy.ndim == 3 and cy.shape[0] == cy.shape[1] and np.abs(cy - np.conj(np.transpose(cy, (1, 0, 2)))).max() > 1e-9:
            bad(pre + '/coherency/not-hermitian', '%s.coherency[j,i] != conj coherency[i,j]' % pre, obs)
        if isinstance(co, np.ndarray) and co.shape == cy.shape and np.all(np.isfinite(np.real(co))):
            if np.abs(np.abs(cy) ** 2 - np.real(co)).max() > 1e-9:
                bad(pre + '/coherency/normsq-ne-coherence', '|%s.coherency|^2 differs from .coherence by %.3g' % (pre, np.abs(np.abs(cy) ** 2 - np.real(co)).max()), obs)
    for nm in ('phase', 'delay'):
        p_ = vals.get(nm)
        if square and isinstance(p_, np.ndarray) and p_.ndim == 3 and p_.shape[0] == p_.shape[1]:
            with np.errstate(all='ignore'):
                q = p_ + np.transpose(p_, (1, 0, 2))
            q = q[~np.eye(p_.shape[0], dtype=bool)]
            q = q[np.isfinite(q)]
            if q.size and np.abs(q).max() > 1e-9:
                bad('%s/%s/not-antisymmetric' % (pre, nm), '%s.%s[j,i] != -%s[i,j]' % (pre, nm, nm), obs)


def getter_history(pre, make, getters, hseed, bad, obs, square=True, orders=2):
    """read every getter of ONE analyzer in a seeded order (each twice, interleaved), keep everything that was handed out and
    re-inspect it at the end: (L6) a kept result still holds what it held; (L2) a re-read equals the value a FRESH analyzer
    gives when that getter is the only one read; the values as they stand pass C08's own oracle (bounds / symmetry)"""
    import random
    fresh = {}
    for g in getters:
        fresh[g] = run(lambda: snap(getattr(make(), g)))
    for oi in range(orders):
        r = random.Random('getters/%d/%d' % (hseed, oi))
        first = list(getters)
        r.shuffle(first)
        second = list(getters)
        r.shuffle(second)
        order = first + second[:max(2, len(second) // 2)]
        C = run(make)
        if isinstance(C, str):
            return
        kept = []
        for g in order:
            v = run(lambda: getattr(C, g))
            if isinstance(v, str):
                if not isinstance(fresh[g], str):
                    bad('%s/history/%s/raises' % (pre, g), '%s.%s raised %s after reading %s (a fresh analyzer does not)' % (pre, g, v, [k[0] for k in kept]), obs)
                continue
            kept.append((g, v, snap(v)))
        tag = ' -> '.join(order)
        final = {}
        for g, v, s0 in kept:
            if not same_deep(v, s0, 0.0):
                bad('%s/history/%s/handed-out-changed' % (pre, g), 'the object handed out by %s.%s was changed in place by a later read (order: %s)' % (pre, g, tag), obs)
            v2 = run(lambda: getattr(C, g))
            if not isinstance(fresh[g], str) and not same_deep(v2, fresh[g]):
                bad('%s/history/%s/differs-from-fresh' % (pre, g), '%s.%s after the read order %s differs from the value of a fresh analyzer' % (pre, g, tag), obs)
            final[g] = v2
            if g in ('coherence', 'coherency'):
                judge_values(pre + '/history/kept', {g: v}, bad, obs, square)
        judge_values(pre + '/history', final, bad, obs, square)


def getter_history_checks(sc, bad):
    import nitime.timeseries as ts
    from nitime.analysis import CoherenceAnalyzer
    X = np.array(sc['data'], dtype=float)
    pre = sc['kind'] if sc['kind'] == 'welch' else sc['method']
    mk = (lambda: explicit_method(sc))
    if sc['kind'] == 'welch' and sc['nov'] is None and sc['NFFT'] <= 32 and X.shape[1] < sc['NFFT'] + 32:
        return
    getters = [g for g in GETTERS['analyzer'] if g != 'coherence_partial' or X.shape[0] >= 3]
    getter_history(pre + '/analyzer', lambda: CoherenceAnalyzer(ts.TimeSeries(X, sampling_rate=sc['Fs']), method=mk()),
                   getters, sc.get('hseed', 0), bad, 'an', orders=1)


def mt_getter_history(sc, bad):
    getter_history('mt-analyzer', lambda: mt_make(sc), GETTERS['mt-analyzer'], sc.get('hseed', 0), bad, 'mta', orders=2)


def cache_path_checks(sc, R, bad):
    """cache_fft + cache_to_coherency, SparseCoherenceAnalyzer, SeedCoherenceAnalyzer (multi-channel seeds, one shared target
    cache) judged by C08's oracle: equal to the function-level coherency on the band (independent route through mlab.csd),
    modulus <= 1, value 1 of a channel with itself / with a scaled copy of itself, Hermitian where both orders are asked for;
    getter histories on both analyzers; every seed row equals the single-seed analyzer of that seed"""
    import random
    A = tsa()
    import nitime.timeseries as ts
    from nitime.analysis import SparseCoherenceAnalyzer, SeedCoherenceAnalyzer
    X = np.array(sc['data'], dtype=float)
    nch, n = X.shape
    if isinstance(R.get('coherency'), str) or isinstance(R.get('spectra'), str):
        return
    f_full, cy_full = R['coherency']
    cy_full = np.asarray(cy_full)
    r = random.Random('cache/%d' % sc.get('hseed', 0))
    lb, ub = R['band'] if r.random() < 0.6 else (0, None)
    # pair list with repeats, reversed pairs, self pairs, a strict subset (class L5)
    allp = [(i, j) for i in range(nch) for j in range(i, nch)]
    ij = r.sample(allp, max(1, len(allp) * 2 // 3))
    ij += [(j, i) for (i, j) in ij[:2] if i != j] + [ij[0]] + [(r.randrange(nch),) * 2]
    r.shuffle(ij)
    psom = r.random() < 0.5
    sbf = r.random() < 0.7

    def band_of(f_band):
        if len(f_band) == 0:
            return 0, 0
        li = int(np.argmin(np.abs(np.asarray(f_full) - f_band[0])))
        return li, li + len(f_band)

    def compare(pre, C, pairs, f_band, obs='coherency'):
        if len(f_band) == 0:           # empty band: nothing to judge
            return
        li, ui = band_of(f_band)
        for (i, j) in pairs:
            got = np.asarray(C[i, j])
            want = cy_full[i, j, li:ui]
            if got.shape != want.shape or not same(got, want, 1e-9):
                bad(pre + '/coherency/ne-function-level', '%s coherency of the pair (%d,%d) differs from the function-level coherency on the band' % (pre, i, j), obs)
                break
        vals = np.array([np.asarray(C[i, j]) for (i, j) in pairs])
        if vals.size and np.all(np.isfinite(np.abs(vals))) and np.abs(vals).max() > 1 + BOUND_TOL:
            bad(pre + '/coherence/above-1', '%s: |coherency| reaches %.6g > 1' % (pre, np.abs(vals).max()), obs)
        for (i, j) in pairs:
            if i == j and np.abs(np.asarray(C[i, j]) - 1).max() > 1e-9:
                bad(pre + '/self-coherence/not-1', '%s: coherency of channel %d with itself is not 1' % (pre, i), obs)
            if (j, i) in pairs and i < j and np.abs(np.asarray(C[j, i]) - np.conj(np.asarray(C[i, j]))).max() > 1e-9:
                bad(pre + '/coherency/not-hermitian', '%s: coherency[%d,%d] != conj coherency[%d,%d]' % (pre, j, i, i, j), obs)

    def meth():
        return method_of(sc)
    # --- function level: cache_fft + cache_to_coherency (twice on the same cache)
    res = run(lambda: A.cache_fft(X, ij, lb=lb, ub=ub, method=meth(), prefer_speed_over_memory=psom, scale_by_freq=sbf))
    if isinstance(res, str):
        bad('welch/cache/raises', 'cache_fft raised ' + res, 'coherency')
        return
    fb, cache = res
    C1 = run(lambda: A.cache_to_coherency(cache, ij))
    C2 = run(lambda: A.cache_to_coherency(cache, list(reversed(ij))))
    if isinstance(C1, str) or isinstance(C2, str):
        bad('welch/cache/raises', 'cache_to_coherency raised %s' % (C1 if isinstance(C1, str) else C2), 'coherency')
    else:
        compare('welch/cache', C1, ij, fb)
        if not same(C1, C2, 0.0):
            bad('welch/cache/coherency/repeat-call-differs', 'cache_to_coherency called twice on the same cache gives different results', 'coherency')
    # --- SparseCoherenceAnalyzer: values and getter history
    T = lambda: ts.TimeSeries(X, sampling_rate=sc['Fs'])
    mkS = lambda: SparseCoherenceAnalyzer(T(), ij=ij, method=meth(), lb=lb, ub=ub, prefer_speed_over_memory=psom, scale_by_freq=sbf)
    S = run(lambda: (lambda a: (np.array(a.coherency), np.array(a.coherence), np.array(a.frequencies)))(mkS()))
    if isinstance(S, str):
        bad('welch/sparse-analyzer/raises', 'SparseCoherenceAnalyzer raised ' + S, 'an')
    else:
        compare('welch/sparse-analyzer', S[0], ij, fb, 'an')
        if not same(np.abs(S[0]) ** 2, S[1], 1e-9):
            bad('welch/sparse-analyzer/coherency/normsq-ne-coherence', 'SparseCoherenceAnalyzer: |coherency|^2 != coherence', 'an')
        getter_history('welch/sparse-analyzer', mkS, GETTERS['sparse-analyzer'], sc.get('hseed', 0), bad, 'an', square=False, orders=1)

        def sparse_same():
            Tt = ts.TimeSeries(X.copy(), sampling_rate=sc['Fs'])
            a = SparseCoherenceAnalyzer(Tt, ij=ij, method=meth(), lb=lb, ub=ub, prefer_speed_over_memory=psom, scale_by_freq=sbf)
            for g in ('coherency', 'coherence', 'spectrum', 'delay'):
                getattr(a, g)
            Tt.data[...] = partner(X)
            a.set_input(Tt)
            return np.array(a.coherency)
        got = run(sparse_same)
        fresh = run(lambda: np.array(SparseCoherenceAnalyzer(ts.TimeSeries(partner(X), sampling_rate=sc['Fs']), ij=ij, method=meth(), lb=lb, ub=ub,
                                                              prefer_speed_over_memory=psom, scale_by_freq=sbf).coherency))
        if not isinstance(fresh, str) and (isinstance(got, str) or not same(got, fresh)):
            bad('welch/sparse-analyzer/reuse/same-object/stale-coherency', 'SparseCoherenceAnalyzer.set_input(T) with the object it already holds, after T.data changed in place: '
                '.coherency is stale' + (' (%s)' % got if isinstance(got, str) else ''), 'an')
    # class L8: the seed series is a strided VIEW of the target's own data (seed rows 0, 2, … of the target)
    Xt = X.copy()
    view = Xt[0::2]
    V = run(lambda: np.array(SeedCoherenceAnalyzer(ts.TimeSeries(view, sampling_rate=sc['Fs']), ts.TimeSeries(Xt, sampling_rate=sc['Fs']), method=meth(),
                                                    lb=lb, ub=ub, prefer_speed_over_memory=psom, scale_by_freq=sbf).coherency))
    if isinstance(V, str):
        bad('welch/seed-analyzer/view-seed/raises', 'SeedCoherenceAnalyzer with a seed that is a view of the target data raised ' + V, 'an')
    elif V.size and np.all(np.isfinite(np.abs(V))):
        Vc = V.reshape((view.shape[0], nch, -1))
        li_, ui_ = band_of(fb)
        for k in range(view.shape[0]):
            want = cy_full[2 * k, :, li_:ui_]
            if want.shape == Vc[k].shape and not same(Vc[k], want, 1e-9):
                bad('welch/seed-analyzer/view-seed/ne-function-level', 'SeedCoherenceAnalyzer whose seed is a strided view of the target data: row %d differs from the function-level coherency of channel %d' % (k, 2 * k), 'an')
                break
        if not np.array_equal(Xt, X):
            bad('welch/seed-analyzer/view-seed/data-modified', 'SeedCoherenceAnalyzer modified the data shared by seed and target', 'an')
    # --- SeedCoherenceAnalyzer: several seeds against ONE target cache; seeds = scaled copies of targets and a mixture
    nseed = r.choice([1, 2, 3, 3])
    gains = [r.choice([-3.0, 0.5, 1e-6, 1e6, -1e-12, 1e12, 1.0]) for _ in range(nseed)]
    src = [r.randrange(nch) for _ in range(nseed)]
    seeds = np.array([X[src[k]] * gains[k] if k != 1 else 0.5 * X[src[k]] / (np.abs(X[src[k]]).max() or 1.0) + 0.5 * X[(src[k] + 1) % nch] / (np.abs(X[(src[k] + 1) % nch]).max() or 1.0)
                      for k in range(nseed)])
    seed_arg = seeds if (nseed > 1 or r.random() < 0.5) else seeds[0]
    kw = dict(lb=lb, ub=ub, prefer_speed_over_memory=psom, scale_by_freq=sbf)
    mkD = lambda: SeedCoherenceAnalyzer(ts.TimeSeries(seed_arg, sampling_rate=sc['Fs']), T(), method=meth(), **kw)
    D = run(lambda: (lambda a: (np.array(a.coherency), np.array(a.coherence)))(mkD()))
    if isinstance(D, str):
        bad('welch/seed-analyzer/raises', 'SeedCoherenceAnalyzer raised ' + D, 'an')
        return
    if D[0].size == 0:
        return
    Dc = D[0].reshape((nseed, nch, -1))
    if not np.all(np.isfinite(np.abs(Dc))):
        return
    if Dc.size and np.abs(Dc).max() > 1 + BOUND_TOL:
        bad('welch/seed-analyzer/coherence/above-1', 'SeedCoherenceAnalyzer (%d seeds): |coherency| reaches %.6g > 1' % (nseed, np.abs(Dc).max()), 'an')
    if Dc.size and D[1].max() > 1 + BOUND_TOL:
        bad('welch/seed-analyzer/coherence/above-1', 'SeedCoherenceAnalyzer (%d seeds): coherence reaches %.6g > 1' % (nseed, D[1].max()), 'an')
    li, ui = band_of(fb)
    for k in range(nseed):
        if k != 1:
            # a seed that is a scaled copy of target t: modulus 1 with t, and the row is sign(gain) * the function-level row of t
            t = src[k]
            if Dc.shape[-1] and np.abs(np.abs(Dc[k, t]) - 1).max() > 1e-9:
                bad('welch/seed-analyzer/self-coherence/not-1', 'SeedCoherenceAnalyzer: seed %d is %g x target %d but their coherence is not 1' % (k, gains[k], t), 'an')
            want = np.sign(gains[k]) * cy_full[t, :, li:ui]
            if want.shape == Dc[k].shape and not same(Dc[k], want, 1e-9):
                bad('welch/seed-analyzer/coherency/ne-function-level', 'SeedCoherenceAnalyzer: the row of seed %d (= %g x target %d) differs from the function-level coherency of that channel' % (k, gains[k], t), 'an')
        single = run(lambda: np.array(SeedCoherenceAnalyzer(ts.TimeSeries(seeds[k], sampling_rate=sc['Fs']), T(), method=meth(), **kw).coherency))
        if not isinstance(single, str) and single.reshape(-1).shape == Dc[k].reshape(-1).shape and not same(single.reshape(Dc[k].shape), Dc[k], 1e-9):
            bad('welch/seed-analyzer/multi-vs-single-seed', 'SeedCoherenceAnalyzer with %d seeds: the row of seed %d differs from the analyzer built for that seed alone' % (nseed, k), 'an')
    getter_history('welch/seed-analyzer', mkD, GETTERS['seed-analyzer'], sc.get('hseed', 0), bad, 'an', square=False, orders=1)


DTYPE_KINDS = ('int16', 'int32', 'int64', 'uint8', 'float32', 'F', 'strided', 'readonly', 'bigendian')


def dtype_checks(pre, X, calls, mk, bad, hseed, obs='coherency'):
    """class L1: the same routine on an int16 / int32 / int64 / uint8 / float32 / big-endian / read-only / Fortran / strided
    representation = the routine on that representation converted to float64 (exact conversion); bounds on the result"""
    import random
    from histories import dtype_family
    r = random.Random('dtype/%d' % hseed)
    fam = dtype_family(np.array(X, dtype=float), r, DTYPE_KINDS)
    for name, call in calls:
        for lab, Xv in r.sample(fam, min(3, len(fam))):
            X64 = np.array(Xv, dtype=float)
            if not cond_family(X64):
                continue
            want = run(lambda: call(X64, mk()))
            got = run(lambda: call(Xv, mk()))
            if isinstance(want, str):
                continue
            if isinstance(got, str):
                bad('%s/func/%s/dtype/%s/raises' % (pre, name, lab), '%s raised %s on %s data (the float64 copy of the same numbers is accepted)' % (name, got, lab), obs)
            elif not same(got, want, 1e-4 if lab == 'float32' else 1e-9):      # float32 data: some estimators transform in single precision
                bad('%s/func/%s/dtype/%s/differs' % (pre, name, lab), '%s on %s data differs from the result on the same numbers as float64 (%s)' % (name, lab, maxdiff(got, want)), obs)
            elif name == 'coherence':
                judge_values('%s/func/dtype-%s' % (pre, lab), {'coherence': np.asarray(got[1])}, bad, obs,
                             tol=1e-5 if lab == 'float32' else None)      # single-precision transforms round at 1e-7


def maxdiff(a, b):
    try:
        if isinstance(a, (tuple, list)):
            return '; '.join(maxdiff(x, y) for x, y in zip(a, b))
        a, b = np.asarray(a), np.asarray(b)
        m = np.isfinite(a) & np.isfinite(b)
        return 'max |diff| %.3g at scale %.3g' % (np.abs(a[m] - b[m]).max(), np.abs(b[m]).max())
    except Exception as e:
        return 'shapes %s' % (e,)


def cond_family(X64):
    """a rounded integer representation can make a channel constant: skip degenerate variants"""
    return bool(np.all(np.ptp(X64, axis=-1) > 0))


def oracle(rng, tier, seed, focus, cases=None):
    fails, nj = [], 0
    by = {}
    for c in (cases or []):
        if c.meta:
            by.setdefault((c.meta['sc'], c.meta['obs']), []).append(c)
    for si, (sc, R) in enumerate(zip(_SC.get('list', []), _SC.get('res', []))):
        nj += 1
        for key, what, obs in judge(sc, R, gain_rng=rng):
            cs = by.get((si, obs), [None])
            clause_hint = key.split('/')[1] if '/' in key else ''
            for c in cs:
                if c is not None and clause_hint in ('func', 'analyzer') and ('/' + clause_hint + '/') not in c.clause:
                    continue
                fails.append(Failure(key, what, {'scenario': sc, 'key': key}, case=c))
            if not any(f.key == key and f.replay['scenario'] is sc for f in fails):
                fails.append(Failure(key, what, {'scenario': sc, 'key': key}))
    return fails, {'scenarios_judged': nj, 'skipped_degenerate': _SC.get('skipped', 0), 'failed': len(fails), 'focus': len(focus)}


def replay(d):
    import random
    sc = d['scenario']
    R = impl_results(sc)
    for key, what, obs in judge(sc, R, gain_rng=random.Random(0)):
        if key == d['key']:
            return Failure(key, what, d)
    if '/gain/' in d['key']:
        for s in range(1, 12):
            for key, what, obs in judge(sc, R, gain_rng=random.Random(s)):
                if key == d['key']:
                    return Failure(key, what, d)
    return None
