"""param_trace.py — which parameters, dtypes and array shapes of nitime's functions the checks ever exercise.

Not a check: a map of the INPUT SPACE the tie between model and code sees (line coverage is ~100 % on the anchored
files, yet a parameter that is always left at its default, or data that are always float64 / C-contiguous / 2-d, is a
blind spot).  Enabled by VERIF_PARAM_TRACE=<out.json> in the environment of `./check` (see common.main): every function
and method defined in a nitime module is wrapped; per function we record, for every parameter, the set of "value
classes" it was called with (default / None / True / False / 0 / int / float / str:<v> / ndarray:<dtype>:<ndim>d:<C|F|strided> /
list / dict / TimeSeries / ...).  harness/param_report.py merges the per-check files into notes/param_coverage.md.
"""
import sys, os, json, inspect, functools, atexit, types

REC = {}


def vclass(v):
    import numpy as np
    if v is None:
        return 'None'
    if isinstance(v, bool):
        return 'True' if v else 'False'
    if isinstance(v, (int, np.integer)):
        return '0' if v == 0 else ('int<0' if v < 0 else 'int')
    if isinstance(v, (float, np.floating)):
        return '0.0' if v == 0 else ('float<0' if v < 0 else 'float')
    if isinstance(v, complex):
        return 'complex'
    if isinstance(v, str):
        return 'str:' + v[:20]
    if isinstance(v, np.ndarray):
        lay = 'C' if v.flags.c_contiguous else ('F' if v.flags.f_contiguous else 'strided')
        k = type(v).__name__ if type(v) is not np.ndarray else 'ndarray'
        return '%s:%s:%dd:%s%s' % (k, v.dtype, v.ndim, lay, '' if v.flags.writeable else ':ro')
    if isinstance(v, (list, tuple)):
        return type(v).__name__ + (':empty' if len(v) == 0 else '')
    if isinstance(v, dict):
        return 'dict{' + ','.join(sorted(str(k) for k in v)[:12]) + '}'
    if callable(v):
        return 'callable'
    return type(v).__name__


def wrap(fn, qual):
    try:
        sig = inspect.signature(fn)
    except (TypeError, ValueError):
        return fn
    rec = REC.setdefault(qual, {})
    params = list(sig.parameters.values())

    @functools.wraps(fn)
    def w(*a, **k):
        try:
            ba = sig.bind_partial(*a, **k)
            for p in params:
                if p.name == 'self':
                    continue
                if p.name in ba.arguments:
                    v = ba.arguments[p.name]
                    c = vclass(v)
                    if p.default is not inspect.Parameter.empty and p.kind not in (p.VAR_KEYWORD, p.VAR_POSITIONAL):
                        try:
                            if v is p.default or (type(v) is type(p.default) and v == p.default):
                                c = 'default(explicit)'
                        except Exception:
                            pass
                else:
                    c = 'default'
                s = rec.setdefault(p.name, {})
                s[c] = s.get(c, 0) + 1
        except Exception:
            pass
        return fn(*a, **k)
    w.__wrapped_by_param_trace__ = True
    return w


def install(out):
    import importlib, pkgutil
    import nitime
    mods = []
    for m in pkgutil.walk_packages(nitime.__path__, 'nitime.'):
        if '.tests' in m.name or m.name.endswith('viz') or 'six' in m.name or 'lazy' in m.name or '_mpl' in m.name:
            continue
        try:
            mods.append(importlib.import_module(m.name))
        except Exception:
            pass
    wrapped = {}
    for mod in mods:
        for name, obj in list(vars(mod).items()):
            if isinstance(obj, types.FunctionType) and (obj.__module__ or '').startswith('nitime') and not getattr(obj, '__wrapped_by_param_trace__', False):
                if obj not in wrapped:
                    wrapped[obj] = wrap(obj, obj.__module__ + '.' + obj.__qualname__)
                setattr(mod, name, wrapped[obj])
            elif isinstance(obj, type) and (obj.__module__ or '') == mod.__name__:
                for an, av in list(vars(obj).items()):
                    if isinstance(av, staticmethod) and an == '__new__' and not getattr(av.__func__, '__wrapped_by_param_trace__', False):
                        try:
                            setattr(obj, an, staticmethod(wrap(av.__func__, mod.__name__ + '.' + obj.__name__ + '.' + an)))
                        except Exception:
                            pass
                        continue
                    if isinstance(av, types.FunctionType) and not getattr(av, '__wrapped_by_param_trace__', False):
                        if an in ('__array_finalize__', '__array_wrap__', '__getattr__', '__repr__', '__str__'):
                            continue
                        try:
                            setattr(obj, an, wrap(av, mod.__name__ + '.' + obj.__name__ + '.' + an))
                        except Exception:
                            pass

    def dump():
        json.dump(REC, open(out, 'w'), indent=0, sort_keys=True)
    atexit.register(dump)
