"""C17 translator pass: the op table of `UniformTime` as the source states it -> Generated/C17Ops.lean.

Pure `ast` walking of nitime/timeseries.py under translate.REPO; no repo code is executed.
Extracted (each becomes one Lean `def`; a construct outside the supported fragment yields the
"unrepaired" value, so that the consuming theorem `Props.C17.static_op_table` stops checking):

  finalizeAttrs       the list literal iterated in UniformTime.__array_finalize__
  finalizeCopies      the loop body calls `.copy()` on the inherited value
  setitemAlwaysRaises __setitem__'s body is a single `raise ValueError(...)`
  imulRefusesZero     __imul__ starts with `if val == 0: raise ...`
  idivGuards          the operands of the `or` guarding the `raise` at the top of __idiv__ (source text)
  iaddOrder/isubOrder the calls of __iadd__/__isub__ in statement order (callee names); the model's
                      step = convert+check -> refuse collapse -> read the shift -> numpy op -> _set_sampling
  oneElementIsShift   _convert_and_check_uniformity runs the diff check only under `len(val) > 1`
  sliceCopies         the slice branch of __getitem__ takes `.copy()` of the selected samples
  lookupBothOrientations  index_at branches on `self.sampling_interval > 0`
  checkOperandAttrs   every attribute READ FROM THE OPERAND (`val.<attr>`) in _convert_and_check_uniformity: the
                      model's `checkOperand` reads dtype / astype / ndim only — an attribute such as
                      `val.sampling_interval` (trusting the operand's type instead of differencing its samples)
                      changes this list
  checkHasattr        the names probed by hasattr(val, ...) / getattr(val, ...)
  checkIsinstance     the classes the operand is tested against with isinstance(val, ...) (none: no branch on type)
  checkDiffExpr       the right-hand side bound to `dv`          (np.diff of the operand itself)
  checkBreaksExpr     the right-hand side bound to `uniformity_breaks`   (exact `!=`, no tolerance)
  checkIntervalSources  every right-hand side bound to `d_interval` in statement order
"""
import ast
import translate as T


def find_class(tree, name):
    for n in tree.body:
        if isinstance(n, ast.ClassDef) and n.name == name:
            return n
    return None


def find_method(cls, name):
    for n in cls.body:
        if isinstance(n, ast.FunctionDef) and n.name == name:
            return n
    return None


def callee(call):
    f = call.func
    parts = []
    while isinstance(f, ast.Attribute):
        parts.append(f.attr)
        f = f.value
    if isinstance(f, ast.Name):
        parts.append(f.id)
    return '.'.join(reversed(parts))


def calls_in_order(fn):
    """callee names statement by statement (nested calls innermost-last within a statement)"""
    out = []
    for st in fn.body:
        if isinstance(st, ast.Expr) and isinstance(st.value, ast.Constant):
            continue
        names = [callee(c) for c in ast.walk(st) if isinstance(c, ast.Call)]
        keep = [n for n in names if n.split('.')[-1] in ('_convert_and_check_uniformity', '_refuse_collapse', '__iadd__', '__isub__',
                                                         '_set_sampling') or n.endswith('.flat') or n == 'int']
        # the shift read is `int(np.asarray(val).flat[0])` bound to a name in its own statement
        if isinstance(st, ast.Assign) and any(isinstance(x, ast.Attribute) and x.attr == 'flat' for x in ast.walk(st.value)):
            out.append('read-shift')
            continue
        for n in keep:
            last = n.split('.')[-1]
            if last in ('_convert_and_check_uniformity', '_refuse_collapse', '_set_sampling'):
                out.append(last)
            elif last in ('__iadd__', '__isub__'):
                out.append('numpy-op')
        if isinstance(st, ast.Expr) or isinstance(st, ast.Return) or isinstance(st, ast.Assign):
            # a shift read inside the _set_sampling call (after the numpy op) is the unrepaired form
            if any(isinstance(x, ast.Attribute) and x.attr == 'flat' for x in ast.walk(st)) and out and out[-1] == '_set_sampling':
                out.insert(len(out) - 1, 'read-shift-late')
    return out


def first_guard(fn):
    """the first `if` of a method, provided nothing before it touches the samples or the attributes
    (a leading normalisation of the argument such as `val = self._whole_factor(val)` is allowed)"""
    for st in fn.body:
        if isinstance(st, ast.Expr) and isinstance(st.value, ast.Constant):
            continue
        if isinstance(st, ast.If):
            return st
        if any(isinstance(c, ast.Call) and (callee(c).startswith('np.ndarray.') or callee(c).endswith('_set_sampling'))
               for c in ast.walk(st)):
            return None
    return None


def lean_str_list(xs):
    return '[' + ', '.join('"%s"' % x.replace('\\', '\\\\').replace('"', '\\"') for x in xs) + ']'


def gen_c17ops():
    tree = T.parse('nitime/timeseries.py')
    cls = find_class(tree, 'UniformTime')
    info = {}
    # __array_finalize__
    attrs, copies = [], False
    fin = find_method(cls, '__array_finalize__')
    for n in ast.walk(fin):
        if isinstance(n, ast.For) and isinstance(n.iter, ast.List) and all(isinstance(e, ast.Constant) for e in n.iter.elts):
            attrs = [e.value for e in n.iter.elts]
            copies = any(isinstance(c, ast.Call) and isinstance(c.func, ast.Attribute) and c.func.attr == 'copy' for c in ast.walk(n))
    # __setitem__
    si = find_method(cls, '__setitem__')
    body = [s for s in si.body if not (isinstance(s, ast.Expr) and isinstance(s.value, ast.Constant))]
    setitem_raises = len(body) == 1 and isinstance(body[0], ast.Raise)
    # __imul__
    im = find_method(cls, '__imul__')
    b0 = first_guard(im)
    imul_zero = (isinstance(b0, ast.If) and ast.unparse(b0.test) == 'val == 0' and any(isinstance(x, ast.Raise) for x in b0.body))
    # __idiv__
    idv = find_method(cls, '__idiv__')
    guards = []
    if idv is not None:
        b0 = first_guard(idv)
        if isinstance(b0, ast.If) and any(isinstance(x, ast.Raise) for x in b0.body):
            t = b0.test
            guards = [ast.unparse(v) for v in t.values] if isinstance(t, ast.BoolOp) and isinstance(t.op, ast.Or) else [ast.unparse(t)]
    iadd = calls_in_order(find_method(cls, '__iadd__'))
    isub = calls_in_order(find_method(cls, '__isub__'))
    # _convert_and_check_uniformity: the diff check guarded by len(val) > 1
    cc = find_method(cls, '_convert_and_check_uniformity')
    one_shift = any(isinstance(n, ast.If) and 'len(val) > 1' in ast.unparse(n.test) and any(isinstance(c, ast.Call) and callee(c) == 'np.diff' for c in ast.walk(n))
                    for n in ast.walk(cc))
    # __getitem__: slice branch copies
    gi = find_method(cls, '__getitem__')
    slice_copies = False
    for n in ast.walk(gi):
        if isinstance(n, ast.If) and 'slice' in ast.unparse(n.test):
            for st in n.body:
                if isinstance(st, ast.Assign) and any(isinstance(c, ast.Call) and isinstance(c.func, ast.Attribute) and c.func.attr == 'copy' for c in ast.walk(st.value)):
                    slice_copies = True
    # index_at
    ia = find_method(cls, 'index_at')
    both = any(isinstance(n, ast.If) and ast.unparse(n.test) == 'self.sampling_interval > 0' for n in ast.walk(ia))
    # _convert_and_check_uniformity: where the interval change of the operand comes from
    op_attrs, op_hasattr, op_isinst, diff_expr, breaks_expr, d_sources = set(), set(), [], '', '', []
    for n in ast.walk(cc):
        if isinstance(n, ast.Attribute) and isinstance(n.value, ast.Name) and n.value.id == 'val':
            op_attrs.add(n.attr)
        if isinstance(n, ast.Call) and callee(n) in ('hasattr', 'getattr') and n.args and isinstance(n.args[0], ast.Name) \
                and n.args[0].id == 'val':
            op_hasattr.add(n.args[1].value if len(n.args) > 1 and isinstance(n.args[1], ast.Constant) else ast.unparse(n))
        if isinstance(n, ast.Call) and callee(n) in ('isinstance', 'issubclass', 'type') and n.args and \
                any(isinstance(x, ast.Name) and x.id == 'val' for x in ast.walk(n.args[0])) and callee(n) != 'issubclass':
            op_isinst.append(ast.unparse(n))
        if isinstance(n, (ast.Assign, ast.AugAssign, ast.AnnAssign)):
            tg = n.targets if isinstance(n, ast.Assign) else [n.target]
            names = [x.id for t_ in tg for x in ast.walk(t_) if isinstance(x, ast.Name)]
            rhs = ast.unparse(n.value) if n.value is not None else ''
            if 'dv' in names:
                diff_expr = rhs if not diff_expr else diff_expr + ' ; ' + rhs
            if 'uniformity_breaks' in names:
                breaks_expr = rhs if not breaks_expr else breaks_expr + ' ; ' + rhs
            if 'd_interval' in names:
                d_sources.append(rhs)
    op_attrs, op_hasattr = sorted(op_attrs), sorted(op_hasattr)
    info = {'checkOperandAttrs': op_attrs, 'checkHasattr': op_hasattr, 'checkIsinstance': op_isinst, 'checkDiffExpr': diff_expr,
            'checkBreaksExpr': breaks_expr, 'checkIntervalSources': d_sources}
    info.update({'finalizeAttrs': attrs, 'finalizeCopies': copies, 'setitemAlwaysRaises': setitem_raises, 'imulRefusesZero': imul_zero,
            'idivGuards': guards, 'iaddOrder': iadd, 'isubOrder': isub, 'oneElementIsShift': one_shift, 'sliceCopies': slice_copies,
            'lookupBothOrientations': both})
    b = lambda v: 'true' if v else 'false'
    lines = ['-- GENERATED by harness/translate_c17.py from nitime/timeseries.py (class UniformTime). DO NOT EDIT.',
             'namespace Nitime.Generated.C17Ops', '',
             '/-- attributes handed to views / copies by `__array_finalize__` -/',
             'def finalizeAttrs : List String := ' + lean_str_list(attrs),
             '/-- … as copies of the attribute objects -/',
             'def finalizeCopies : Bool := ' + b(copies),
             'def setitemAlwaysRaises : Bool := ' + b(setitem_raises),
             'def imulRefusesZero : Bool := ' + b(imul_zero),
             '/-- the disjuncts guarding the refusal at the top of `__idiv__` -/',
             'def idivGuards : List String := ' + lean_str_list(guards),
             '/-- the steps of `__iadd__` / `__isub__` in statement order -/',
             'def iaddOrder : List String := ' + lean_str_list(iadd),
             'def isubOrder : List String := ' + lean_str_list(isub),
             'def oneElementIsShift : Bool := ' + b(one_shift),
             'def sliceCopies : Bool := ' + b(slice_copies),
             'def lookupBothOrientations : Bool := ' + b(both),
             '/-- `_convert_and_check_uniformity`: attributes read from the operand, names probed on it, type tests on it -/',
             'def checkOperandAttrs : List String := ' + lean_str_list(op_attrs),
             'def checkHasattr : List String := ' + lean_str_list(op_hasattr),
             'def checkIsinstance : List String := ' + lean_str_list(op_isinst),
             '/-- … the differences, the test that finds the breaks, and every source of the interval change -/',
             'def checkDiffExpr : String := ' + lean_str_list([diff_expr])[1:-1],
             'def checkBreaksExpr : String := ' + lean_str_list([breaks_expr])[1:-1],
             'def checkIntervalSources : List String := ' + lean_str_list(d_sources), '',
             'end Nitime.Generated.C17Ops', '']
    return 'C17Ops.lean', '\n'.join(lines), info


GENERATORS = [gen_c17ops]
